------------------------------- MODULE Frost -------------------------------
(* The library as a state machine.  One action per public entry point; the  *)
(* state is the environment of protocol objects that participants, the      *)
(* coordinator, the network and the adversary hold (`env`, by handle), the  *)
(* lazily sampled random-oracle table (`ro`), the outcome of the last call  *)
(* (`last`) and the scenario script executed so far (`hist`), which is what  *)
(* the harness replays against the real code.                               *)
(*                                                                          *)
(* Participant steps are pure functions of their arguments, so a behaviour  *)
(* is determined by *which* calls are made on *which* objects with *which*  *)
(* random draws and oracle answers; the MC modules fix canonical schedules  *)
(* and spend nondeterminism on those inputs.                                *)
EXTENDS FrostCore, TLC

VARIABLES env,    \* handle -> abstract object
          ro,     \* <<tag, preimage bytes>> -> answer
          last,   \* [op, res] of the most recent call
          hist    \* sequence of script steps (with expectations)

fvars == <<env, ro, last, hist>>

FrostInit ==
  /\ env = << >>
  /\ ro = << >>
  /\ last = [op |-> "init", res |-> [ok |-> TRUE]]
  /\ hist = << >>

Has(h) == h \in DOMAIN env

\* id -> value maps are shown as ascending lists of pairs (the BTreeMap order)
Pairs(f) == LET ks == Sorted(DOMAIN f) IN [k \in 1..Len(ks) |-> <<ks[k], f[ks[k]]>>]

\* 2-byte big-endian script draws for Field::random
Draw2(v) == U16(v)
Draws2(vs) == [k \in DOMAIN vs |-> U16(vs[k])]

-----------------------------------------------------------------------------
(* generic machinery: lazily sample the oracle until the call completes *)

Dispatch(r, op, a) ==
  CASE op = "commit"       -> Commit(r, a.share, a.r1, a.r2)
    [] op = "sign"         -> Sign(r, a.pkg, a.non, a.kp)
    [] op = "verify_share" -> VerifyShare(r, a.id, a.Y, a.z, a.pkg, a.vk)
    [] op = "aggregate"    -> Aggregate(r, a.pkg, a.shares, a.pkp, a.mode)
    [] op = "verify"       -> Verify(r, a.vk, a.msg, a.sig)
    [] op = "dkg1"         -> DkgPart1(r, a.id, a.n, a.t, a.a0, a.coeffs, a.k, a.refresh)
    [] op = "dkg2"         -> DkgPart2(r, a.sec, a.r1, a.refresh)
    [] op = "rr_params"    -> RandParams(r, a.vk, a.seed, a.comms)
    [] op = "rr_sign"      -> SignRand(r, a.pkg, a.non, a.kp, a.seed)
    [] op = "rr_aggregate" -> AggregateRand(r, a.pkg, a.shares, a.pkp, a.mode, a.rp)
    [] op = "single_sign"  -> SingleSign(r, a.s, a.k, a.msg)
    [] op = "batch"        -> BatchVerify(r, a.items, a.blinders)

RECURSIVE Outcomes(_,_,_)
Outcomes(r, op, a) ==
  LET x == Dispatch(r, op, a)
  IN IF IsNeed(x) THEN UNION { Outcomes(r @@ (x.need :> v), op, a) : v \in x.dom }
     ELSE { <<r, x>> }

\* entry points that take a slice (&[Identifier], &[KeyPackage]) see it in the caller's order
OrderOf(s, name) ==
  LET m == Len(s) IN
  CASE name = "asc"  -> s
    [] name = "desc" -> [k \in 1..m |-> s[m + 1 - k]]
    [] name = "rot"  -> [k \in 1..m |-> s[(k % m) + 1]]
CallerOrders(s) == {OrderOf(s, n) : n \in {"asc", "desc", "rot"}}

\* a call that succeeded binds `binds` (handle -> object); a failed one binds nothing
Finish(op, res, binds, step) ==
  /\ last' = [op |-> op, res |-> res]
  /\ env' = IF res.ok THEN binds @@ env ELSE env
  /\ hist' = Append(hist, step)

ErrProj(res) == [ok |-> FALSE, err |-> res.err, culprits |-> res.culprits]

-----------------------------------------------------------------------------
(* keys.rs *)

\* Handles are pairs <<name, index>> (TLC needs position-wise comparable domain elements).
\* split(key, n, t, ids, rng) -> secret shares <<ssn, id>> and the public package pkph
ActSplit(ssn, pkph, key, n, t, ids, custom, coeffs) ==
  LET res == Split(key, n, t, ids, custom, coeffs)
      binds == IF res.ok
               THEN [h \in {pkph} \cup {<<ssn, i>> : i \in DOMAIN res.shares} |->
                       IF h = pkph
                       THEN [ty |-> "pkp", vs |-> res.vs, vk |-> res.vk, min |-> res.min]
                       ELSE [ty |-> "ss", id |-> h[2], share |-> res.shares[h[2]], commit |-> res.commit]]
               ELSE << >>
      exp == IF res.ok THEN [ok |-> TRUE, shares |-> Pairs(res.shares), commit |-> res.commit,
                             vs |-> Pairs(res.vs), vk |-> res.vk, min |-> res.min]
             ELSE ErrProj(res)
  IN /\ Len(coeffs) = SplitDraws(n, t, ids, custom)
     /\ ro' = ro
     /\ Finish("split", res, binds,
               [op |-> "split", out_ss |-> ssn, out_pkp |-> pkph, key |-> key, n |-> n, t |-> t,
                ids |-> ids, custom |-> custom, rng |-> Draws2(coeffs), expect |-> exp])

\* KeyPackage::try_from(SecretShare)
ActKpFromSs(out, ssh) ==
  LET res == KpFromSs(env[ssh])
      binds == IF res.ok THEN (out :> ([ty |-> "kp"] @@ [id |-> res.id, share |-> res.share,
                                        vs |-> res.vs, vk |-> res.vk, min |-> res.min]))
               ELSE << >>
      exp == IF res.ok THEN [ok |-> TRUE, id |-> res.id, share |-> res.share, vs |-> res.vs,
                             vk |-> res.vk, min |-> res.min]
             ELSE ErrProj(res)
  IN /\ Has(ssh)
     /\ ro' = ro
     /\ Finish("kp_from_ss", res, binds, [op |-> "kp_from_ss", out |-> out, ss |-> ssh, expect |-> exp])

\* adversary: build a SecretShare with one coordinate altered
\*   what = "share" (add d), "id" (replace by d), "commit" (add d*G to entry k),
\*          "trunc" (drop last commitment), "extend" (append d*G)
TamperedSs(ss, what, k, d) ==
  CASE what = "share"  -> [ss EXCEPT !.share = Add(@, d)]
    [] what = "id"     -> [ss EXCEPT !.id = d]
    [] what = "commit" -> [ss EXCEPT !.commit[k] = Add(@, d)]
    [] what = "trunc"  -> [ss EXCEPT !.commit = SubSeq(@, 1, Len(@) - 1)]
    [] what = "extend" -> [ss EXCEPT !.commit = Append(@, d)]
    [] what = "zero"   -> [ss EXCEPT !.share = 0]

ActTamperSs(out, ssh, what, k, d) ==
  /\ Has(ssh)
  /\ ro' = ro
  /\ Finish("tamper_ss", [ok |-> TRUE], (out :> TamperedSs(env[ssh], what, k, d)),
            [op |-> "tamper_ss", out |-> out, src |-> ssh, what |-> what, k |-> k, d |-> d])

\* adversary: a key package / public key package that lies about min_signers
ActLieMin(out, h, m) ==
  /\ Has(h)
  /\ ro' = ro
  /\ Finish("lie_min", [ok |-> TRUE], (out :> [env[h] EXCEPT !.min = m]),
            [op |-> "lie_min", out |-> out, src |-> h, min |-> m])

\* reconstruct(&[KeyPackage])
ActReconstruct(kphs) ==
  LET res == Reconstruct([k \in DOMAIN kphs |-> env[kphs[k]]])
      exp == IF res.ok THEN [ok |-> TRUE, key |-> res.key] ELSE ErrProj(res)
  IN /\ \A k \in DOMAIN kphs : Has(kphs[k])
     /\ ro' = ro
     /\ Finish("reconstruct", res, << >>, [op |-> "reconstruct", kps |-> kphs, expect |-> exp])

-----------------------------------------------------------------------------
(* round1.rs *)

\* commit(signing_share, rng) with the two 32-byte draws r1, r2; `rngf` is how the
\* script spells the draws (shorthand rng32 in model checking, full bytes in traces)
ActCommitR(nonh, commh, kph, r1, r2, rngf) ==
  /\ Has(kph)
  /\ \E o \in Outcomes(ro, "commit", [share |-> env[kph].share, r1 |-> r1, r2 |-> r2]) :
       LET res == o[2] IN
       /\ ro' = o[1]
       /\ Finish("commit", res,
                 [h \in {nonh, commh} |->
                    IF h = nonh THEN [ty |-> "non", hiding |-> res.hiding, binding |-> res.binding,
                                          D |-> res.D, E |-> res.E]
                    ELSE [ty |-> "comm", D |-> res.D, E |-> res.E]],
                 [op |-> "commit", out_non |-> nonh, out_comm |-> commh, kp |-> kph] @@ rngf @@
                 [expect |-> [ok |-> TRUE, hiding |-> res.hiding, binding |-> res.binding,
                              D |-> res.D, E |-> res.E]])

\* b1, b2 select the two draws (31 zero bytes followed by b)
ActCommit(nonh, commh, kph, b1, b2) ==
  ActCommitR(nonh, commh, kph, Rand32(b1), Rand32(b2), [rng32 |-> <<b1, b2>>])


\* preprocess(k, share, rng) with 2k 32-byte draws rs -> nonces <<nn, j>>, commitments <<cn, j>>
ActPreprocessR(nn, cn, kph, rs, rngf) ==
  /\ Has(kph)
  /\ LET k == Len(rs) \div 2
         RECURSIVE Run(_, _, _)
         Run(r, j, acc) ==
           IF j > k THEN {<<r, acc>>}
           ELSE UNION { Run(o[1], j + 1, Append(acc, o[2])) :
                          o \in Outcomes(r, "commit", [share |-> env[kph].share, r1 |-> rs[2*j - 1], r2 |-> rs[2*j]]) }
     IN \E o \in Run(ro, 1, << >>) :
          LET pairs == o[2] IN
          /\ ro' = o[1]
          /\ Finish("preprocess", [ok |-> TRUE, pairs |-> pairs],
                    [h \in {<<nn, j>> : j \in 1..k} \cup {<<cn, j>> : j \in 1..k} |->
                       IF h[1] = nn THEN [ty |-> "non", hiding |-> pairs[h[2]].hiding, binding |-> pairs[h[2]].binding,
                                          D |-> pairs[h[2]].D, E |-> pairs[h[2]].E]
                       ELSE [ty |-> "comm", D |-> pairs[h[2]].D, E |-> pairs[h[2]].E]],
                    [op |-> "preprocess", k |-> k, out_non |-> nn, out_comm |-> cn, kp |-> kph] @@ rngf @@
                    [expect |-> [ok |-> TRUE,
                                 pairs |-> [j \in 1..k |-> [hiding |-> pairs[j].hiding, binding |-> pairs[j].binding,
                                                            D |-> pairs[j].D, E |-> pairs[j].E]]]])

\* adversary / network: a commitment with one side altered
\*   what = "D" / "E" (add d*G), "swap" (exchange hiding and binding)
TamperedComm(c, what, d) ==
  CASE what = "D" -> [c EXCEPT !.D = Add(@, d)]
    [] what = "E" -> [c EXCEPT !.E = Add(@, d)]
    [] what = "swap" -> [c EXCEPT !.D = c.E, !.E = c.D]
    [] what = "identD" -> [c EXCEPT !.D = 0]
    [] what = "identE" -> [c EXCEPT !.E = 0]

ActTamperComm(out, h, what, d) ==
  /\ Has(h)
  /\ ro' = ro
  /\ Finish("tamper_comm", [ok |-> TRUE], (out :> TamperedComm(env[h], what, d)),
            [op |-> "tamper_comm", out |-> out, src |-> h, what |-> what, d |-> d])

\* a signer whose nonce *scalars* are negated while the stored commitments are kept (state
\* restored from a tampered file, or a Taproot signer applying the BIP-340 negation with the
\* wrong sign): sign() accepts the nonces (the commitments match the package) and produces a
\* share that is not the honest one
ActNegNonces(out, h) ==
  /\ Has(h)
  /\ ro' = ro
  /\ Finish("neg_nonces", [ok |-> TRUE], (out :> [env[h] EXCEPT !.hiding = Neg(@), !.binding = Neg(@)]),
            [op |-> "neg_nonces", out |-> out, src |-> h])

\* coordinator: SigningPackage::new(slots : id -> commitment handle, msg)
ActPackage(out, msg, slots) ==
  /\ \A i \in DOMAIN slots : Has(slots[i])
  /\ ro' = ro
  /\ Finish("package", [ok |-> TRUE],
            (out :> [ty |-> "pkg", msg |-> msg,
                     comms |-> [i \in DOMAIN slots |-> [D |-> env[slots[i]].D, E |-> env[slots[i]].E]]]),
            [op |-> "package", out |-> out, msg |-> msg, slots |-> Pairs(slots)])

-----------------------------------------------------------------------------
(* round2.rs, lib.rs *)

ActSign(out, pkgh, nonh, kph) ==
  /\ Has(pkgh) /\ Has(nonh) /\ Has(kph)
  /\ \E o \in Outcomes(ro, "sign", [pkg |-> env[pkgh], non |-> env[nonh], kp |-> env[kph]]) :
       LET res == o[2] IN
       /\ ro' = o[1]
       /\ Finish("sign", res, IF res.ok THEN (out :> [ty |-> "zs", z |-> res.z]) ELSE << >>,
                 [op |-> "sign", out |-> out, pkg |-> pkgh, non |-> nonh, kp |-> kph,
                  expect |-> IF res.ok THEN [ok |-> TRUE, z |-> res.z] ELSE ErrProj(res)])

\* adversary: an altered signature share.  how = "add" (z+d), "neg", "zero"
TamperedZ(z, how, d) == CASE how = "add" -> Add(z, d) [] how = "neg" -> Neg(z) [] how = "zero" -> 0

ActTamperShare(out, h, how, d) ==
  /\ Has(h)
  /\ ro' = ro
  /\ Finish("tamper_share", [ok |-> TRUE], (out :> [ty |-> "zs", z |-> TamperedZ(env[h].z, how, d)]),
            [op |-> "tamper_share", out |-> out, src |-> h, how |-> how, d |-> d])

\* verify_signature_share(id, pkp.verifying_shares[vsid], share, pkg, vk of vkh)
ActVerifyShareK(id, vsid, pkph, zh, pkgh, vkh) ==
  /\ Has(pkph) /\ Has(zh) /\ Has(pkgh) /\ Has(vkh) /\ vsid \in DOMAIN env[pkph].vs
  /\ \E o \in Outcomes(ro, "verify_share",
                       [id |-> id, Y |-> env[pkph].vs[vsid], z |-> env[zh].z,
                        pkg |-> env[pkgh], vk |-> env[vkh].vk]) :
       LET res == o[2] IN
       /\ ro' = o[1]
       /\ Finish("verify_share", res, << >>,
                 [op |-> "verify_share", id |-> id, vsid |-> vsid, pkp |-> pkph, share |-> zh, pkg |-> pkgh,
                  vk |-> vkh,
                  expect |-> IF res.ok THEN [ok |-> TRUE] ELSE ErrProj(res)])

ActVerifyShare(id, vsid, pkph, zh, pkgh) == ActVerifyShareK(id, vsid, pkph, zh, pkgh, pkph)

\* aggregate_custom(pkg, slots : id -> share handle, pkp, mode)
ActAggregate(out, pkgh, slots, pkph, mode) ==
  /\ Has(pkgh) /\ Has(pkph) /\ \A i \in DOMAIN slots : Has(slots[i])
  /\ \E o \in Outcomes(ro, "aggregate",
                       [pkg |-> env[pkgh], shares |-> [i \in DOMAIN slots |-> env[slots[i]].z],
                        pkp |-> env[pkph], mode |-> mode]) :
       LET res == o[2] IN
       /\ ro' = o[1]
       /\ Finish("aggregate", res, IF res.ok THEN (out :> [ty |-> "sig", R |-> res.R, z |-> res.z]) ELSE << >>,
                 [op |-> "aggregate", out |-> out, pkg |-> pkgh, shares |-> Pairs(slots), pkp |-> pkph,
                  mode |-> mode,
                  \* (a refusal on the number of shares is told apart from a signature that merely fails:
                  \*  the coordinator "refuses to aggregate fewer than threshold-many shares")
                  expect |-> IF res.ok THEN [ok |-> TRUE, R |-> res.R, z |-> res.z,
                                            bytes |-> SigBytes(res.R, res.z)]
                             ELSE ErrProj(res) @@ (IF res.err = "IncorrectNumberOfShares"
                                                   THEN [refused_on_count |-> TRUE] ELSE << >>)])

\* VerifyingKey::verify(msg, sig) with the key of a public key package
ActVerify(pkph, msg, sigh) ==
  /\ Has(pkph) /\ Has(sigh)
  /\ \E o \in Outcomes(ro, "verify", [vk |-> env[pkph].vk, msg |-> msg, sig |-> env[sigh]]) :
       LET res == o[2] IN
       /\ ro' = o[1]
       /\ Finish("verify", res, << >>,
                 [op |-> "verify", pkp |-> pkph, msg |-> msg, sig |-> sigh,
                  expect |-> IF res.ok THEN [ok |-> TRUE] ELSE ErrProj(res)])


-----------------------------------------------------------------------------
(* keys/dkg.rs, keys/refresh.rs (distributed) *)

KpObj(k)   == [ty |-> "kp"] @@ k
PkpObj(p)  == [ty |-> "pkp"] @@ p
KpProj(k)  == [id |-> k.id, share |-> k.share, vs |-> k.vs, vk |-> k.vk, min |-> k.min]
PkpProj(p) == [vs |-> Pairs(p.vs), vk |-> p.vk, min |-> p.min]

\* number of draws part1 makes: the secret (random_nonzero), t-1 coefficients, the proof nonce
Dkg1Draws(n, t) == IF ParamErr(n, t) # "none" THEN 0 ELSE t - 1

\* part1 / refresh_dkg_part1.  a0 and k are the (non-zero) results of random_nonzero.
ActDkg1(sech, pkgh, id, n, t, a0, coeffs, k, refresh) ==
  /\ Len(coeffs) = Dkg1Draws(n, t)
  /\ \E o \in Outcomes(ro, "dkg1", [id |-> id, n |-> n, t |-> t, a0 |-> a0, coeffs |-> coeffs, k |-> k,
                                    refresh |-> refresh]) :
       LET res == o[2]
           draws == IF ParamErr(n, t) # "none" THEN << >>
                    ELSE (IF refresh THEN << >> ELSE <<Draw2(a0)>>) \o Draws2(coeffs)
                         \o (IF res.ok \/ res.err # "GroupError" THEN <<Draw2(k)>> ELSE <<Draw2(k)>>)
       IN
       /\ ro' = o[1]
       /\ Finish("dkg1", res,
                 IF res.ok THEN
                   [h \in {sech, pkgh} |->
                      IF h = sech THEN [ty |-> "r1s", id |-> id, coeffs |-> res.coeffs, commit |-> res.commit,
                                        min |-> res.min, max |-> res.max]
                      ELSE [ty |-> "r1p", commit |-> res.commit, R |-> res.R, mu |-> res.mu]]
                 ELSE << >>,
                 [op |-> "dkg1", out_sec |-> sech, out_pkg |-> pkgh, id |-> id, n |-> n, t |-> t,
                  refresh |-> refresh, rng |-> draws,
                  expect |-> IF res.ok THEN [ok |-> TRUE, id |-> id, coeffs |-> res.coeffs, commit |-> res.commit,
                                            sec_commit |-> res.commit, R |-> res.R, mu |-> res.mu,
                                            min |-> res.min, max |-> res.max]
                             ELSE ErrProj(res)])

\* adversary: a round-one package with one field altered
TamperedR1(p, what, k, d) ==
  CASE what = "R"      -> [p EXCEPT !.R = Add(@, d)]
    [] what = "mu"     -> [p EXCEPT !.mu = Add(@, d)]
    [] what = "commit" -> [p EXCEPT !.commit[k] = Add(@, d)]
    [] what = "trunc"  -> [p EXCEPT !.commit = SubSeq(@, 1, Len(@) - 1)]
    [] what = "extend" -> [p EXCEPT !.commit = Append(@, d)]
    [] what = "empty"  -> [p EXCEPT !.commit = << >>]

ActTamperR1(out, h, what, k, d) ==
  /\ Has(h)
  /\ ro' = ro
  /\ Finish("tamper_r1", [ok |-> TRUE], (out :> TamperedR1(env[h], what, k, d)),
            [op |-> "tamper_r1", out |-> out, src |-> h, what |-> what, k |-> k, d |-> d])

\* adversary: sender's commitment with the proof of knowledge of another package
ActGraftProof(out, ch, ph) ==
  /\ Has(ch) /\ Has(ph)
  /\ ro' = ro
  /\ Finish("graft_proof", [ok |-> TRUE], (out :> [env[ch] EXCEPT !.R = env[ph].R, !.mu = env[ph].mu]),
            [op |-> "graft_proof", out |-> out, commit_of |-> ch, proof_of |-> ph])

ActTamperR2(out, h, d) ==
  /\ Has(h)
  /\ ro' = ro
  /\ Finish("tamper_r2", [ok |-> TRUE], (out :> [env[h] EXCEPT !.share = Add(@, d)]),
            [op |-> "tamper_r2", out |-> out, src |-> h, d |-> d])

\* adversary: a round-two package carrying the zero share
ActZeroR2(out, h) ==
  /\ Has(h)
  /\ ro' = ro
  /\ Finish("zero_r2", [ok |-> TRUE], (out :> [env[h] EXCEPT !.share = 0]),
            [op |-> "zero_r2", out |-> out, src |-> h])

\* part2 / refresh_dkg_part2: r1 : sender id -> handle; round-two packages are
\* bound to <<r2n, recipient>>
ActDkg2(sech2, r2n, sech, r1, refresh) ==
  /\ Has(sech) /\ \A l \in DOMAIN r1 : Has(r1[l])
  /\ \E o \in Outcomes(ro, "dkg2", [sec |-> env[sech], r1 |-> [l \in DOMAIN r1 |-> env[r1[l]]],
                                    refresh |-> refresh]) :
       LET res == o[2] IN
       /\ ro' = o[1]
       /\ Finish("dkg2", res,
                 IF res.ok THEN
                   [h \in {sech2} \cup {<<r2n, l>> : l \in DOMAIN res.r2} |->
                      IF h = sech2 THEN [ty |-> "r2s", id |-> res.id, commit |-> res.commit, share |-> res.own,
                                         min |-> res.min, max |-> res.max]
                      ELSE [ty |-> "r2p", share |-> res.r2[h[2]]]]
                 ELSE << >>,
                 [op |-> "dkg2", out_sec |-> sech2, out_r2 |-> r2n, sec |-> sech, r1 |-> Pairs(r1),
                  refresh |-> refresh,
                  expect |-> IF res.ok THEN [ok |-> TRUE, id |-> res.id, own |-> res.own, r2 |-> Pairs(res.r2),
                                            sec_commit |-> res.commit, min |-> res.min, max |-> res.max]
                             ELSE ErrProj(res)])

\* part3 / refresh_dkg_shares
ActDkg3(kph, pkph, sech2, r1, r2, refresh, opkph, okph) ==
  /\ Has(sech2) /\ (\A l \in DOMAIN r1 : Has(r1[l])) /\ (\A l \in DOMAIN r2 : Has(r2[l]))
  /\ refresh => Has(opkph) /\ Has(okph)
  /\ LET r1v == [l \in DOMAIN r1 |-> env[r1[l]]]
         r2v == [l \in DOMAIN r2 |-> env[r2[l]]]
         res == IF refresh THEN RefreshDkgShares(env[sech2], r1v, r2v, env[opkph], env[okph])
                ELSE DkgPart3(env[sech2], r1v, r2v)
     IN /\ ro' = ro
        /\ Finish("dkg3", res,
                  IF res.ok THEN [h \in {kph, pkph} |-> IF h = kph THEN KpObj(res.kp) ELSE PkpObj(res.pkp)]
                  ELSE << >>,
                  [op |-> "dkg3", out_kp |-> kph, out_pkp |-> pkph, sec |-> sech2, r1 |-> Pairs(r1),
                   r2 |-> Pairs(r2), refresh |-> refresh]
                  @@ (IF refresh THEN [old_pkp |-> opkph, old_kp |-> okph] ELSE << >>)
                  @@ [expect |-> IF res.ok THEN [ok |-> TRUE, kp |-> KpProj(res.kp), pkp |-> PkpProj(res.pkp)]
                                 ELSE ErrProj(res)])


-----------------------------------------------------------------------------
(* keys/refresh.rs (trusted dealer), keys/repairable.rs *)

\* compute_refreshing_shares -> zero shares <<ssn, id>> and the refreshed package
ActRefreshShares(ssn, npkph, pkph, ids, coeffs) ==
  /\ Has(pkph)
  /\ Len(coeffs) = RefreshDraws(env[pkph], ids)
  /\ LET res == ComputeRefreshingShares(env[pkph], ids, coeffs) IN
     /\ ro' = ro
     /\ Finish("refresh_shares", res,
               IF res.ok THEN
                 [h \in {npkph} \cup {<<ssn, i>> : i \in DOMAIN res.shares} |->
                    IF h = npkph THEN PkpObj(res.pkp)
                    ELSE [ty |-> "ss", id |-> h[2], share |-> res.shares[h[2]], commit |-> res.commit]]
               ELSE << >>,
               [op |-> "refresh_shares", out_ss |-> ssn, out_pkp |-> npkph, pkp |-> pkph, ids |-> ids,
                rng |-> Draws2(coeffs),
                expect |-> IF res.ok THEN [ok |-> TRUE,
                                          shares |-> [k \in DOMAIN ids |-> <<ids[k], res.shares[ids[k]]>>],
                                          commit |-> res.commit, pkp |-> PkpProj(res.pkp)]
                           ELSE ErrProj(res)])

ActRefreshShare(out, ssh, kph) ==
  /\ Has(ssh) /\ Has(kph)
  /\ LET res == RefreshShare(env[ssh], env[kph]) IN
     /\ ro' = ro
     /\ Finish("refresh_share", res, IF res.ok THEN (out :> KpObj(KpProj(res))) ELSE << >>,
               [op |-> "refresh_share", out |-> out, ss |-> ssh, kp |-> kph,
                expect |-> IF res.ok THEN [ok |-> TRUE] @@ KpProj(res) ELSE ErrProj(res)])

\* repair_share_part1: deltas are bound to <<dn, recipient helper>>
ActRepair1(dn, helpers, kph, draws, x) ==
  /\ Has(kph)
  /\ Len(draws) = RepairDraws(helpers, env[kph])
  /\ LET res == RepairPart1(helpers, env[kph], draws, x) IN
     /\ ro' = ro
     /\ Finish("repair1", res,
               IF res.ok THEN [h \in {<<dn, j>> : j \in DOMAIN res.deltas} |-> [ty |-> "sc", v |-> res.deltas[h[2]]]]
               ELSE << >>,
               [op |-> "repair1", out |-> dn, helpers |-> helpers, kp |-> kph, target |-> x,
                rng |-> Draws2(draws),
                expect |-> IF res.ok THEN [ok |-> TRUE, deltas |-> Pairs(res.deltas),
                                           delta_ids |-> Sorted(DOMAIN res.deltas),
                                           delta_sum |-> SumOver(DOMAIN res.deltas, LAMBDA j : res.deltas[j])]
                           ELSE ErrProj(res)])

ActRepair2(out, dhs) ==
  /\ \A k \in DOMAIN dhs : Has(dhs[k])
  /\ LET res == RepairPart2([k \in DOMAIN dhs |-> env[dhs[k]].v]) IN
     /\ ro' = ro
     /\ Finish("repair2", res, (out :> [ty |-> "sc", v |-> res.sigma]),
               [op |-> "repair2", out |-> out, deltas |-> dhs, expect |-> [ok |-> TRUE, sigma |-> res.sigma]])

ActRepair3(out, shs, id, pkph) ==
  /\ Has(pkph) /\ \A k \in DOMAIN shs : Has(shs[k])
  /\ LET res == RepairPart3([k \in DOMAIN shs |-> env[shs[k]].v], id, env[pkph]) IN
     /\ ro' = ro
     /\ Finish("repair3", res, IF res.ok THEN (out :> KpObj(KpProj(res))) ELSE << >>,
               [op |-> "repair3", out |-> out, sigmas |-> shs, id |-> id, pkp |-> pkph,
                expect |-> IF res.ok THEN [ok |-> TRUE] @@ KpProj(res) ELSE ErrProj(res)])


-----------------------------------------------------------------------------
(* frost-rerandomized *)

RpProj(rp) == [alpha |-> rp.alpha, alphaG |-> rp.alphaG, vk2 |-> rp.vk2]

\* coordinator: RandomizedParams::new_from_commitments(vk, commitments, rng):
\* the seed is one draw of scalar length
ActRrNew(rph, seedh, pkph, pkgh, seed) ==
  /\ Has(pkph) /\ Has(pkgh)
  /\ \E o \in Outcomes(ro, "rr_params", [vk |-> env[pkph].vk, seed |-> seed, comms |-> env[pkgh].comms]) :
       LET res == o[2] IN
       /\ ro' = o[1]
       /\ Finish("rr_new", res,
                 IF res.ok THEN [h \in {rph, seedh} |-> IF h = rph THEN [ty |-> "rp"] @@ RpProj(res)
                                                        ELSE [ty |-> "bytes", b |-> seed]]
                 ELSE << >>,
                 [op |-> "rr_new", out |-> rph, out_seed |-> seedh, pkp |-> pkph, pkg |-> pkgh, rng |-> <<seed>>,
                  expect |-> IF res.ok THEN [ok |-> TRUE, seed |-> seed] @@ RpProj(res) ELSE ErrProj(res)])

\* participant or coordinator: regenerate_from_seed_and_commitments
ActRrRegen(rph, vkh, seedh, pkgh) ==
  /\ Has(vkh) /\ Has(seedh) /\ Has(pkgh)
  /\ \E o \in Outcomes(ro, "rr_params", [vk |-> env[vkh].vk, seed |-> env[seedh].b, comms |-> env[pkgh].comms]) :
       LET res == o[2] IN
       /\ ro' = o[1]
       /\ Finish("rr_regen", res, IF res.ok THEN (rph :> ([ty |-> "rp"] @@ RpProj(res))) ELSE << >>,
                 [op |-> "rr_regen", out |-> rph, pkp |-> vkh, seed |-> seedh, pkg |-> pkgh,
                  expect |-> IF res.ok THEN [ok |-> TRUE] @@ RpProj(res) ELSE ErrProj(res)])

\* explicit randomizer (RandomizedParams::from_randomizer)
ActRrFixed(rph, pkph, alpha) ==
  /\ Has(pkph)
  /\ ro' = ro
  /\ LET rp == FixedParams(env[pkph].vk, alpha) IN
     Finish("rr_fixed", [ok |-> TRUE], (rph :> ([ty |-> "rp"] @@ rp)),
            [op |-> "rr_fixed", out |-> rph, pkp |-> pkph, alpha |-> alpha, expect |-> [ok |-> TRUE] @@ RpProj(rp)])

\* adversary / network: a seed with its last byte altered, one byte appended (d, or zero), its last
\* byte dropped, or no bytes at all (the seed is an arbitrary byte string, hashed whole)
TamperedSeed(b, how, d) ==
  CASE how = "last"    -> [b EXCEPT ![Len(b)] = (@ + d) % 256]
    [] how = "append"  -> Append(b, d)
    [] how = "append0" -> Append(b, 0)
    [] how = "trunc"   -> SubSeq(b, 1, Len(b) - 1)
    [] how = "empty"   -> << >>

ActTamperSeedHow(out, seedh, how, d) ==
  /\ Has(seedh)
  /\ ro' = ro
  /\ Finish("tamper_seed", [ok |-> TRUE], (out :> [ty |-> "bytes", b |-> TamperedSeed(env[seedh].b, how, d)]),
            [op |-> "tamper_seed", out |-> out, src |-> seedh, how |-> how, d |-> d])

ActTamperSeed(out, seedh, d) == ActTamperSeedHow(out, seedh, "last", d)

ActRrSign(out, pkgh, nonh, kph, seedh) ==
  /\ Has(pkgh) /\ Has(nonh) /\ Has(kph) /\ Has(seedh)
  /\ \E o \in Outcomes(ro, "rr_sign", [pkg |-> env[pkgh], non |-> env[nonh], kp |-> env[kph], seed |-> env[seedh].b]) :
       LET res == o[2] IN
       /\ ro' = o[1]
       /\ Finish("rr_sign", res, IF res.ok THEN (out :> [ty |-> "zs", z |-> res.z]) ELSE << >>,
                 [op |-> "rr_sign", out |-> out, pkg |-> pkgh, non |-> nonh, kp |-> kph, seed |-> seedh,
                  expect |-> IF res.ok THEN [ok |-> TRUE, z |-> res.z] ELSE ErrProj(res)])

\* deprecated sign(pkg, nonces, kp, randomizer): signing with the randomized key package
ActRrSignFixed(out, pkgh, nonh, kph, rph) ==
  /\ Has(pkgh) /\ Has(nonh) /\ Has(kph) /\ Has(rph)
  /\ \E o \in Outcomes(ro, "sign", [pkg |-> env[pkgh], non |-> env[nonh], kp |-> RandomizeKp(env[kph], env[rph])]) :
       /\ ro' = o[1]
       /\ Finish("rr_sign_fixed", o[2], IF o[2].ok THEN (out :> [ty |-> "zs", z |-> o[2].z]) ELSE << >>,
                 [op |-> "rr_sign_fixed", out |-> out, pkg |-> pkgh, non |-> nonh, kp |-> kph, rp |-> rph,
                  expect |-> IF o[2].ok THEN [ok |-> TRUE, z |-> o[2].z] ELSE ErrProj(o[2])])

StructuralErrs == {"IncorrectNumberOfShares", "UnknownIdentifier"}
ActRrAggregate(out, pkgh, slots, pkph, mode, rph) ==
  /\ Has(pkgh) /\ Has(pkph) /\ Has(rph) /\ \A i \in DOMAIN slots : Has(slots[i])
  /\ \E o \in Outcomes(ro, "rr_aggregate",
                       [pkg |-> env[pkgh], shares |-> [i \in DOMAIN slots |-> env[slots[i]].z],
                        pkp |-> env[pkph], mode |-> mode, rp |-> env[rph]]) :
       LET res == o[2] IN
       /\ ro' = o[1]
       /\ Finish("aggregate", res, IF res.ok THEN (out :> [ty |-> "sig", R |-> res.R, z |-> res.z]) ELSE << >>,
                 [op |-> "aggregate", out |-> out, pkg |-> pkgh, shares |-> Pairs(slots), pkp |-> pkph,
                  mode |-> mode, rp |-> rph,
                  \* a refusal on the shape of the inputs (before any signature arithmetic) is the one plain
                  \* aggregation gives on the same inputs: threshold enforcement is unchanged under randomization
                  expect |-> IF res.ok THEN [ok |-> TRUE, R |-> res.R, z |-> res.z]
                             ELSE ErrProj(res) @@ (IF res.err \in StructuralErrs THEN [structural_same |-> TRUE] ELSE << >>)])

\* verify under the key held by any object with a `vk` (or `vk2` for randomized params)
VkOf(h) == IF env[h].ty = "rp" THEN env[h].vk2 ELSE env[h].vk
ActVerifyUnder(vkh, msg, sigh) ==
  /\ Has(vkh) /\ Has(sigh)
  /\ \E o \in Outcomes(ro, "verify", [vk |-> VkOf(vkh), msg |-> msg, sig |-> env[sigh]]) :
       LET res == o[2] IN
       /\ ro' = o[1]
       /\ Finish("verify", res, << >>,
                 [op |-> "verify", pkp |-> vkh, msg |-> msg, sig |-> sigh,
                  expect |-> IF res.ok THEN [ok |-> TRUE] ELSE ErrProj(res)])

-----------------------------------------------------------------------------
(* single-signer signing and batch verification *)

ActMkSk(out, s) ==
  /\ ro' = ro
  /\ Finish("mk_sk", [ok |-> TRUE], (out :> [ty |-> "sk", s |-> s, vk |-> s]),
            [op |-> "mk_sk", out |-> out, key |-> s, expect |-> [ok |-> TRUE, vk |-> s]])

\* SigningKey::sign: zeros = number of zero draws rejected before the nonce k
ActSingleSign(out, skh, zeros, k, msg) ==
  /\ Has(skh)
  /\ \E o \in Outcomes(ro, "single_sign", [s |-> env[skh].s, k |-> k, msg |-> msg]) :
       LET res == o[2] IN
       /\ ro' = o[1]
       /\ Finish("single_sign", res, (out :> [ty |-> "sig", R |-> res.R, z |-> res.z]),
                 [op |-> "single_sign", out |-> out, sk |-> skh, msg |-> msg,
                  rng |-> [j \in 1..zeros |-> Draw2(0)] \o <<Draw2(k)>>,
                  expect |-> [ok |-> TRUE, R |-> res.R, z |-> res.z]])

ActTamperSig(out, h, what, d) ==
  /\ Has(h)
  /\ ro' = ro
  /\ Finish("tamper_sig", [ok |-> TRUE],
            (out :> (IF what = "R" THEN [env[h] EXCEPT !.R = Add(@, d)] ELSE [env[h] EXCEPT !.z = Add(@, d)])),
            [op |-> "tamper_sig", out |-> out, src |-> h, what |-> what, d |-> d])

\* batch: items = sequence of [vk |-> handle, sig |-> handle, msg |-> bytes]
ActBatch(items, blinders) ==
  /\ \A k \in DOMAIN items : Has(items[k].vk) /\ Has(items[k].sig)
  /\ \E o \in Outcomes(ro, "batch",
                       [items |-> [k \in DOMAIN items |-> [vk |-> VkOf(items[k].vk), sig |-> env[items[k].sig],
                                                            msg |-> items[k].msg]],
                        blinders |-> blinders]) :
       LET res == o[2] IN
       /\ ro' = o[1]
       /\ Finish("batch", res, << >>,
                 [op |-> "batch", items |-> [k \in DOMAIN items |-> <<items[k].vk, items[k].sig, items[k].msg>>],
                  rng |-> IF "singles" \in DOMAIN res THEN Draws2(blinders) ELSE << >>,
                  expect |-> IF res.ok THEN [ok |-> TRUE, singles |-> res.singles, plains |-> res.singles]
                             ELSE IF "singles" \in DOMAIN res
                                  THEN [ok |-> FALSE, err |-> res.err, singles |-> res.singles, plains |-> res.singles]
                                  ELSE ErrProj(res)])


-----------------------------------------------------------------------------
(* persistence: a participant saves local state at a round boundary and     *)
(* continues from the decoded copy.  Decode(Encode(st)) = st, so the action  *)
(* leaves the environment unchanged -- provided the state is encodable: an   *)
(* identity element has no encoding, which is why the refresh code strips    *)
(* the identity entry from the commitments it stores.                        *)

NoIdent(seq) == \A k \in DOMAIN seq : ~IsIdent(seq[k])
Encodable(o) ==
  CASE o.ty \in {"r1s", "r2s", "ss"} -> NoIdent(o.commit)
    [] o.ty = "r1p"  -> NoIdent(o.commit) /\ ~IsIdent(o.R)
    [] o.ty = "kp"   -> ~IsIdent(o.vs) /\ ~IsIdent(o.vk)
    [] o.ty = "pkp"  -> ~IsIdent(o.vk) /\ \A i \in DOMAIN o.vs : ~IsIdent(o.vs[i])
    [] o.ty \in {"non", "comm"} -> ~IsIdent(o.D) /\ ~IsIdent(o.E)
    [] o.ty = "pkg"  -> ~ListHasIdent(o.comms)
    [] o.ty = "sig"  -> ~IsIdent(o.R)
    [] OTHER -> TRUE          \* scalars (shares, repair values, signature shares) are always encodable

ActReload(h, form) ==
  /\ Has(h)
  /\ ro' = ro
  /\ LET res == IF Encodable(env[h]) THEN [ok |-> TRUE, same |-> TRUE] ELSE [ok |-> FALSE, stage |-> "ser"] IN
     /\ last' = [op |-> "reload", res |-> res]
     /\ env' = env
     /\ hist' = Append(hist, [op |-> "reload", h |-> h, form |-> form, expect |-> res])

-----------------------------------------------------------------------------
(* emission of a finished behaviour as one replayable script *)

RoList == { <<k[1], k[2], ro[k]>> : k \in DOMAIN ro }
Script(prop) == [script |-> prop, q |-> Q, p |-> P, g |-> GEN, steps |-> hist, oracle |-> RoList]
=============================================================================
