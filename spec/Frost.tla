------------------------------- MODULE Frost -------------------------------
(* The library as a state machine.  One action per public entry point; the  *)
(* state is the environment of protocol objects that participants, the      *)
(* coordinator, the network and the adversary hold (`env`, by handle), the  *)
(* lazily sampled random-oracle table (`ro`), the outcome of the last call  *)
(* (`last`) and the scenario script executed so far (`hist`), which is what  *)
(* the harness replays against the real code.                               *)
(*                                                                          *)
(* Participant steps are pure functions of their arguments, so a behaviour  *)
(* is determined by *which* calls are made on *which* objects with *which*  *)
(* random draws and oracle answers; the MC modules fix canonical schedules  *)
(* and spend nondeterminism on those inputs.                                *)
EXTENDS FrostCore, TLC

VARIABLES env,    \* handle -> abstract object
          ro,     \* <<tag, preimage bytes>> -> answer
          last,   \* [op, res] of the most recent call
          hist    \* sequence of script steps (with expectations)

fvars == <<env, ro, last, hist>>

FrostInit ==
  /\ env = << >>
  /\ ro = << >>
  /\ last = [op |-> "init", res |-> [ok |-> TRUE]]
  /\ hist = << >>

Has(h) == h \in DOMAIN env

\* id -> value maps are shown as ascending lists of pairs (the BTreeMap order)
Pairs(f) == LET ks == Sorted(DOMAIN f) IN [k \in 1..Len(ks) |-> <<ks[k], f[ks[k]]>>]

\* 2-byte big-endian script draws for Field::random
Draw2(v) == U16(v)
Draws2(vs) == [k \in DOMAIN vs |-> U16(vs[k])]

-----------------------------------------------------------------------------
(* generic machinery: lazily sample the oracle until the call completes *)

Dispatch(r, op, a) ==
  CASE op = "commit"       -> Commit(r, a.share, a.b1, a.b2)
    [] op = "sign"         -> Sign(r, a.pkg, a.non, a.kp)
    [] op = "verify_share" -> VerifyShare(r, a.id, a.Y, a.z, a.pkg, a.vk)
    [] op = "aggregate"    -> Aggregate(r, a.pkg, a.shares, a.pkp, a.mode)
    [] op = "verify"       -> Verify(r, a.vk, a.msg, a.sig)

RECURSIVE Outcomes(_,_,_)
Outcomes(r, op, a) ==
  LET x == Dispatch(r, op, a)
  IN IF IsNeed(x) THEN UNION { Outcomes(r @@ (x.need :> v), op, a) : v \in x.dom }
     ELSE { <<r, x>> }

\* a call that succeeded binds `binds` (handle -> object); a failed one binds nothing
Finish(op, res, binds, step) ==
  /\ last' = [op |-> op, res |-> res]
  /\ env' = IF res.ok THEN binds @@ env ELSE env
  /\ hist' = Append(hist, step)

ErrProj(res) == [ok |-> FALSE, err |-> res.err, culprits |-> res.culprits]

-----------------------------------------------------------------------------
(* keys.rs *)

\* Handles are pairs <<name, index>> (TLC needs position-wise comparable domain elements).
\* split(key, n, t, ids, rng) -> secret shares <<ssn, id>> and the public package pkph
ActSplit(ssn, pkph, key, n, t, ids, custom, coeffs) ==
  LET res == Split(key, n, t, ids, custom, coeffs)
      binds == IF res.ok
               THEN [h \in {pkph} \cup {<<ssn, i>> : i \in DOMAIN res.shares} |->
                       IF h = pkph
                       THEN [ty |-> "pkp", vs |-> res.vs, vk |-> res.vk, min |-> res.min]
                       ELSE [ty |-> "ss", id |-> h[2], share |-> res.shares[h[2]], commit |-> res.commit]]
               ELSE << >>
      exp == IF res.ok THEN [ok |-> TRUE, shares |-> Pairs(res.shares), commit |-> res.commit,
                             vs |-> Pairs(res.vs), vk |-> res.vk, min |-> res.min]
             ELSE ErrProj(res)
  IN /\ Len(coeffs) = SplitDraws(n, t, ids, custom)
     /\ ro' = ro
     /\ Finish("split", res, binds,
               [op |-> "split", out_ss |-> ssn, out_pkp |-> pkph, key |-> key, n |-> n, t |-> t,
                ids |-> ids, custom |-> custom, rng |-> Draws2(coeffs), expect |-> exp])

\* KeyPackage::try_from(SecretShare)
ActKpFromSs(out, ssh) ==
  LET res == KpFromSs(env[ssh])
      binds == IF res.ok THEN (out :> ([ty |-> "kp"] @@ [id |-> res.id, share |-> res.share,
                                        vs |-> res.vs, vk |-> res.vk, min |-> res.min]))
               ELSE << >>
      exp == IF res.ok THEN [ok |-> TRUE, id |-> res.id, share |-> res.share, vs |-> res.vs,
                             vk |-> res.vk, min |-> res.min]
             ELSE ErrProj(res)
  IN /\ Has(ssh)
     /\ ro' = ro
     /\ Finish("kp_from_ss", res, binds, [op |-> "kp_from_ss", out |-> out, ss |-> ssh, expect |-> exp])

\* adversary: build a SecretShare with one coordinate altered
\*   what = "share" (add d), "id" (replace by d), "commit" (add d*G to entry k),
\*          "trunc" (drop last commitment), "extend" (append d*G)
TamperedSs(ss, what, k, d) ==
  CASE what = "share"  -> [ss EXCEPT !.share = Add(@, d)]
    [] what = "id"     -> [ss EXCEPT !.id = d]
    [] what = "commit" -> [ss EXCEPT !.commit[k] = Add(@, d)]
    [] what = "trunc"  -> [ss EXCEPT !.commit = SubSeq(@, 1, Len(@) - 1)]
    [] what = "extend" -> [ss EXCEPT !.commit = Append(@, d)]

ActTamperSs(out, ssh, what, k, d) ==
  /\ Has(ssh)
  /\ ro' = ro
  /\ Finish("tamper_ss", [ok |-> TRUE], (out :> TamperedSs(env[ssh], what, k, d)),
            [op |-> "tamper_ss", out |-> out, src |-> ssh, what |-> what, k |-> k, d |-> d])

\* adversary: a key package / public key package that lies about min_signers
ActLieMin(out, h, m) ==
  /\ Has(h)
  /\ ro' = ro
  /\ Finish("lie_min", [ok |-> TRUE], (out :> [env[h] EXCEPT !.min = m]),
            [op |-> "lie_min", out |-> out, src |-> h, min |-> m])

\* reconstruct(&[KeyPackage])
ActReconstruct(kphs) ==
  LET res == Reconstruct([k \in DOMAIN kphs |-> env[kphs[k]]])
      exp == IF res.ok THEN [ok |-> TRUE, key |-> res.key] ELSE ErrProj(res)
  IN /\ \A k \in DOMAIN kphs : Has(kphs[k])
     /\ ro' = ro
     /\ Finish("reconstruct", res, << >>, [op |-> "reconstruct", kps |-> kphs, expect |-> exp])

-----------------------------------------------------------------------------
(* round1.rs *)

\* commit(signing_share, rng): b1, b2 select the two 32-byte draws
ActCommit(nonh, commh, kph, b1, b2) ==
  /\ Has(kph)
  /\ \E o \in Outcomes(ro, "commit", [share |-> env[kph].share, b1 |-> b1, b2 |-> b2]) :
       LET res == o[2] IN
       /\ ro' = o[1]
       /\ Finish("commit", res,
                 [h \in {nonh, commh} |->
                    IF h = nonh THEN [ty |-> "non", hiding |-> res.hiding, binding |-> res.binding,
                                          D |-> res.D, E |-> res.E]
                    ELSE [ty |-> "comm", D |-> res.D, E |-> res.E]],
                 [op |-> "commit", out_non |-> nonh, out_comm |-> commh, kp |-> kph,
                  rng |-> <<Rand32(b1), Rand32(b2)>>,
                  expect |-> [ok |-> TRUE, hiding |-> res.hiding, binding |-> res.binding,
                              D |-> res.D, E |-> res.E]])

\* adversary / network: a commitment with one side altered
\*   what = "D" / "E" (add d*G), "swap" (exchange hiding and binding)
TamperedComm(c, what, d) ==
  CASE what = "D" -> [c EXCEPT !.D = Add(@, d)]
    [] what = "E" -> [c EXCEPT !.E = Add(@, d)]
    [] what = "swap" -> [c EXCEPT !.D = c.E, !.E = c.D]

ActTamperComm(out, h, what, d) ==
  /\ Has(h)
  /\ ro' = ro
  /\ Finish("tamper_comm", [ok |-> TRUE], (out :> TamperedComm(env[h], what, d)),
            [op |-> "tamper_comm", out |-> out, src |-> h, what |-> what, d |-> d])

\* coordinator: SigningPackage::new(slots : id -> commitment handle, msg)
ActPackage(out, msg, slots) ==
  /\ \A i \in DOMAIN slots : Has(slots[i])
  /\ ro' = ro
  /\ Finish("package", [ok |-> TRUE],
            (out :> [ty |-> "pkg", msg |-> msg,
                     comms |-> [i \in DOMAIN slots |-> [D |-> env[slots[i]].D, E |-> env[slots[i]].E]]]),
            [op |-> "package", out |-> out, msg |-> msg, slots |-> Pairs(slots)])

-----------------------------------------------------------------------------
(* round2.rs, lib.rs *)

ActSign(out, pkgh, nonh, kph) ==
  /\ Has(pkgh) /\ Has(nonh) /\ Has(kph)
  /\ \E o \in Outcomes(ro, "sign", [pkg |-> env[pkgh], non |-> env[nonh], kp |-> env[kph]]) :
       LET res == o[2] IN
       /\ ro' = o[1]
       /\ Finish("sign", res, IF res.ok THEN (out :> [ty |-> "zs", z |-> res.z]) ELSE << >>,
                 [op |-> "sign", out |-> out, pkg |-> pkgh, non |-> nonh, kp |-> kph,
                  expect |-> IF res.ok THEN [ok |-> TRUE, z |-> res.z] ELSE ErrProj(res)])

\* adversary: an altered signature share.  how = "add" (z+d), "neg", "zero"
TamperedZ(z, how, d) == CASE how = "add" -> Add(z, d) [] how = "neg" -> Neg(z) [] how = "zero" -> 0

ActTamperShare(out, h, how, d) ==
  /\ Has(h)
  /\ ro' = ro
  /\ Finish("tamper_share", [ok |-> TRUE], (out :> [ty |-> "zs", z |-> TamperedZ(env[h].z, how, d)]),
            [op |-> "tamper_share", out |-> out, src |-> h, how |-> how, d |-> d])

\* verify_signature_share(id, pkp.verifying_shares[vsid], share, pkg, pkp.verifying_key)
ActVerifyShare(id, vsid, pkph, zh, pkgh) ==
  /\ Has(pkph) /\ Has(zh) /\ Has(pkgh) /\ vsid \in DOMAIN env[pkph].vs
  /\ \E o \in Outcomes(ro, "verify_share",
                       [id |-> id, Y |-> env[pkph].vs[vsid], z |-> env[zh].z,
                        pkg |-> env[pkgh], vk |-> env[pkph].vk]) :
       LET res == o[2] IN
       /\ ro' = o[1]
       /\ Finish("verify_share", res, << >>,
                 [op |-> "verify_share", id |-> id, vsid |-> vsid, pkp |-> pkph, share |-> zh, pkg |-> pkgh,
                  expect |-> IF res.ok THEN [ok |-> TRUE] ELSE ErrProj(res)])

\* aggregate_custom(pkg, slots : id -> share handle, pkp, mode)
ActAggregate(out, pkgh, slots, pkph, mode) ==
  /\ Has(pkgh) /\ Has(pkph) /\ \A i \in DOMAIN slots : Has(slots[i])
  /\ \E o \in Outcomes(ro, "aggregate",
                       [pkg |-> env[pkgh], shares |-> [i \in DOMAIN slots |-> env[slots[i]].z],
                        pkp |-> env[pkph], mode |-> mode]) :
       LET res == o[2] IN
       /\ ro' = o[1]
       /\ Finish("aggregate", res, IF res.ok THEN (out :> [ty |-> "sig", R |-> res.R, z |-> res.z]) ELSE << >>,
                 [op |-> "aggregate", out |-> out, pkg |-> pkgh, shares |-> Pairs(slots), pkp |-> pkph,
                  mode |-> mode,
                  expect |-> IF res.ok THEN [ok |-> TRUE, R |-> res.R, z |-> res.z,
                                            bytes |-> SigBytes(res.R, res.z)]
                             ELSE ErrProj(res)])

\* VerifyingKey::verify(msg, sig) with the key of a public key package
ActVerify(pkph, msg, sigh) ==
  /\ Has(pkph) /\ Has(sigh)
  /\ \E o \in Outcomes(ro, "verify", [vk |-> env[pkph].vk, msg |-> msg, sig |-> env[sigh]]) :
       LET res == o[2] IN
       /\ ro' = o[1]
       /\ Finish("verify", res, << >>,
                 [op |-> "verify", pkp |-> pkph, msg |-> msg, sig |-> sigh,
                  expect |-> IF res.ok THEN [ok |-> TRUE] ELSE ErrProj(res)])

-----------------------------------------------------------------------------
(* emission of a finished behaviour as one replayable script *)

RoList == { <<k[1], k[2], ro[k]>> : k \in DOMAIN ro }
Script(prop) == [script |-> prop, q |-> Q, p |-> P, g |-> GEN, steps |-> hist, oracle |-> RoList]
=============================================================================
