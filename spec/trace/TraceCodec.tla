----------------------------- MODULE TraceCodec -----------------------------
(* C12: laws over observed decode/encode events, for every wire type of     *)
(* every ciphersuite.  TLC cannot decide whether 32 bytes are a point of    *)
(* the prime-order subgroup of Curve25519, so the statement is checked as   *)
(* laws over what the decoders did with tagged inputs:                      *)
(*  Valid      an encoding produced by the library decodes, to an equal     *)
(*             value, and re-encodes to itself (binary and JSON)            *)
(*  Canonical  a fixed-size byte string that is accepted re-encodes to      *)
(*             exactly itself -- hence no two strings denote one value: if  *)
(*             b1 # b2 were both accepted for v, both would re-encode to    *)
(*             enc(v) and at least one would differ from its input          *)
(*  Catalogue  identity, zero identifier / signing key, scalar >= order,    *)
(*             small-order and mixed-order points, non-canonical field      *)
(*             elements, wrong length, wrong version, foreign suite id, a   *)
(*             fixed-size field shortened inside a container are rejected   *)
(* For the toy suite the whole 2^16 input space of each primitive is        *)
(* enumerated and the acceptance set must equal the codec specification's.  *)
EXTENDS FrostCodec, TLC, Json, IOUtils

Rec == ndJsonDeserialize(IOEnv.TRACE)

VARIABLES l, bad
tvars == <<l, bad>>
E == Rec[l]
Fld(e, f) == f \in DOMAIN e

Rejected == {"identity", "ge_order", "small_order", "mixed_order", "noncanon", "len", "version", "suite_id", "short_field"}
MustReject(e) == e.tag \in Rejected \/ (e.tag = "zero" /\ e.class \in {"id", "sk"})
FixedSize(e) == e.class # "container" /\ e.form = "bin"

DecLaws(e) ==
  (IF Fld(e, "panic") THEN {"panic"} ELSE {})
  \cup (IF e.tag = "valid" /\ ~e.accepted THEN {"valid_rejected"} ELSE {})
  \cup (IF e.tag = "valid" /\ e.accepted /\ Fld(e, "reenc") /\ e.reenc # e.input THEN {"roundtrip_bytes"} ELSE {})
  \cup (IF e.tag = "valid" /\ e.accepted /\ Fld(e, "same") /\ ~e.same THEN {"roundtrip_value"} ELSE {})
  \cup (IF e.tag = "valid" /\ e.accepted /\ Fld(e, "reenc_same") /\ ~e.reenc_same THEN {"roundtrip_json"} ELSE {})
  \cup (IF FixedSize(e) /\ e.accepted /\ (~Fld(e, "reenc") \/ e.reenc # e.input) THEN {"noncanonical_accepted"} ELSE {})
  \cup (IF MustReject(e) /\ e.accepted THEN {"accepted_" \o e.tag} ELSE {})
  \cup (IF e.tag = "truncated" /\ e.accepted /\ Fld(e, "same") /\ e.same THEN {"truncation_equal"} ELSE {})
  \* no second byte string decodes to the value a container was encoded from
  \cup (IF Fld(e, "alias") /\ e.alias THEN {"alias_accepted"} ELSE {})

\* the toy suite's acceptance sets, from the codec specification (field of the event)
AccSpec(class, q) ==
  CASE class = "scalar" -> {U16(v) : v \in 0..(q - 1)}
    [] class \in {"id", "sk"} -> {U16(v) : v \in 1..(q - 1)}
    [] class = "elem" -> {ElemBytes(x) : x \in 1..(q - 1)}

AccLaws(e) ==
  LET got == {<<e.acc[k][1], e.acc[k][2]>> : k \in DOMAIN e.acc} IN
  (IF e.q # Q THEN {"field_mismatch"} ELSE {})
  \cup (IF e.q = Q /\ got # AccSpec(e.class, e.q) THEN {"acceptance_set"} ELSE {})
  \cup (IF \E k \in DOMAIN e.acc : e.acc[k][3] # <<e.acc[k][1], e.acc[k][2]>> THEN {"noncanonical_accepted"} ELSE {})

TraceInit == l = 1 /\ bad = {}

Step ==
  /\ l <= Len(Rec)
  /\ l' = l + 1
  /\ CASE E.op = "reset" -> bad' = bad
       [] E.op = "dec" -> bad' = bad \cup {<<l, E.ty, k>> : k \in DecLaws(E)}
       [] E.op = "accset" -> bad' = bad \cup {<<l, E.ty, k>> : k \in AccLaws(E)}
       [] OTHER -> UNCHANGED bad

TraceSpec == TraceInit /\ [][Step]_tvars
Consumed == (l = Len(Rec) + 1) => PrintT(<<"TRACE-RESULT", Len(Rec), bad>>)
=============================================================================
