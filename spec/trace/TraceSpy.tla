------------------------------- MODULE TraceSpy -------------------------------
(* C02 / C15, code -> spec on real arithmetic: the unmodified generic code is *)
(* run over Ed25519, Ed448, P-256, ristretto255 and secp256k1 through the     *)
(* transparent Spy<C> wrapper, which logs every hash query.  TLC checks, as   *)
(* byte sequences, that the preimages are composed exactly as RFC 9591        *)
(* prescribes (the same layouts FrostCodec gives the toy suite):              *)
(*   nonce_generate      H3( random_bytes(32) || SerializeScalar(share) )     *)
(*                       and the nonce is the H3 output, hiding drawn first   *)
(*   commitment list     id || hiding || binding per participant in ascending *)
(*                       *numeric* identifier order (the specification sorts  *)
(*                       the logged big-endian identifier bytes itself)       *)
(*   binding factor      H1( vk || H4(msg) || H5(list) || id ), one per       *)
(*                       participant, ascending                               *)
(*   challenge           H2( R || vk || msg )                                 *)
EXTENDS Naturals, Sequences, FiniteSets, SequencesExt, TLC, Json, IOUtils

Rec == ndJsonDeserialize(IOEnv.TRACE)
VARIABLES l, bad, env
tvars == <<l, bad, env>>
E == Rec[l]
Fld(e, f) == f \in DOMAIN e

RECURSIVE LexLess(_, _)
LexLess(a, b) ==
  IF a = << >> THEN b # << >>
  ELSE IF b = << >> THEN FALSE
  ELSE IF Head(a) < Head(b) THEN TRUE
  ELSE IF Head(a) > Head(b) THEN FALSE
  ELSE LexLess(Tail(a), Tail(b))

RECURSIVE Concat(_)
Concat(ss) == IF ss = << >> THEN << >> ELSE Head(ss) \o Concat(Tail(ss))
Suffix(s, n) == SubSeq(s, Len(s) - n + 1, Len(s))

\* slots: sequence of <<id_enc, id_be, D, E>>
Ascending(slots) == SortSeq(slots, LAMBDA a, b : LexLess(a[2], b[2]))
ListEnc(slots) == LET s == Ascending(slots) IN Concat([k \in DOMAIN s |-> s[k][1] \o s[k][3] \o s[k][4]])

\* the protocol's hash queries: identifier derivation (HID, made while the harness builds the
\* arguments) and Field::random log entries are not part of them
Qs(e) == SelectSeq(e.queries, LAMBDA q : q[1] \notin {"HID", "random"})
Q(e, k) == Qs(e)[k]

\* the queries of binding-factor computation + challenge for package p under key vk
BindingLaws(e, p, vk, withR) ==
  LET n == Len(p.enc)
      s == Ascending(p.enc)
      qs == Qs(e)
  IN IF Len(qs) < n + 3 THEN {"query_count"}
     ELSE
       (IF Q(e, 1)[1] # "H4" \/ Q(e, 1)[2] # p.msg THEN {"H4_preimage"} ELSE {})
       \cup (IF Q(e, 2)[1] # "H5" \/ Q(e, 2)[2] # ListEnc(p.enc) THEN {"H5_preimage_list_order"} ELSE {})
       \cup (IF \E k \in 1..n : Q(e, 2 + k)[1] # "H1"
                 \/ Q(e, 2 + k)[2] # vk \o Q(e, 1)[3] \o Q(e, 2)[3] \o s[k][1]
             THEN {"H1_preimage"} ELSE {})
       \cup (IF Q(e, n + 3)[1] # "H2" \/ Len(Q(e, n + 3)[2]) # 2 * Len(vk) + Len(p.msg)
                 \/ Suffix(Q(e, n + 3)[2], Len(vk) + Len(p.msg)) # vk \o p.msg
             THEN {"H2_preimage"} ELSE {})
       \cup (IF withR # << >> /\ SubSeq(Q(e, n + 3)[2], 1, Len(withR)) # withR THEN {"H2_preimage_R"} ELSE {})

\* k pairs of nonces: 2k draws of 32 bytes (rng_served is logged in 32-byte units however the library
\* chunks its requests); the j-th H3 query hashes the j-th draw followed by the encoded share, and the
\* nonces are the H3 outputs in that order (hiding, binding, hiding, ...)
NonceLaws(e, k) ==
  LET sv == e.res.rng_served
      prs == IF e.op = "commit" THEN <<[hiding |-> e.res.hiding, binding |-> e.res.binding]>> ELSE e.res.pairs
  IN IF Len(sv) # 2 * k \/ \E j \in DOMAIN sv : Len(sv[j]) # 32 THEN {"rng_bytes_drawn"}
     ELSE IF Len(Qs(e)) # 2 * k THEN {"query_count"}
     ELSE UNION {
       (IF Q(e, 2 * j - 1)[1] # "H3" \/ Q(e, 2 * j - 1)[2] # sv[2 * j - 1] \o env[e.kp].share THEN {"H3_preimage_hiding"} ELSE {})
       \cup (IF Q(e, 2 * j)[1] # "H3" \/ Q(e, 2 * j)[2] # sv[2 * j] \o env[e.kp].share THEN {"H3_preimage_binding"} ELSE {})
       \cup (IF prs[j].hiding # Q(e, 2 * j - 1)[3] \/ prs[j].binding # Q(e, 2 * j)[3] THEN {"nonce_is_not_H3_output"} ELSE {})
       : j \in 1..k }

Laws(e) ==
  CASE e.op = "commit" /\ e.res.ok /\ e.kp \in DOMAIN env -> NonceLaws(e, 1)
    [] e.op = "preprocess" /\ e.res.ok /\ e.kp \in DOMAIN env -> NonceLaws(e, e.k)
    [] e.op = "sign" /\ e.res.ok /\ e.kp \in DOMAIN env /\ e.pkg \in DOMAIN env ->
         BindingLaws(e, env[e.pkg], env[e.kp].vk, << >>)
    [] e.op = "aggregate" /\ e.res.ok /\ e.pkp \in DOMAIN env /\ e.pkg \in DOMAIN env /\ ~Fld(e, "rp") ->
         BindingLaws(e, env[e.pkg], env[e.pkp].vk, e.res.R)
    [] OTHER -> {}

TraceInit == l = 1 /\ bad = {} /\ env = << >>
Step ==
  /\ l <= Len(Rec)
  /\ l' = l + 1
  /\ IF E.op = "reset" THEN bad' = bad /\ env' = << >>
     ELSE /\ bad' = bad \cup {<<l, E.op, k>> : k \in Laws(E)}
          /\ env' = CASE E.op = "kp_from_ss" /\ E.res.ok -> (E.out :> [share |-> E.res.share, vk |-> E.res.vk]) @@ env
                      [] E.op = "split" /\ E.res.ok -> (E.out_pkp :> [vk |-> E.res.vk]) @@ env
                      [] E.op = "package" /\ Fld(E.res, "enc") -> (E.out :> [msg |-> E.msg, enc |-> E.res.enc]) @@ env
                      [] OTHER -> env
TraceSpec == TraceInit /\ [][Step]_tvars
Consumed == (l = Len(Rec) + 1) => PrintT(<<"TRACE-RESULT", Len(Rec), bad>>)
=============================================================================
