------------------------------ MODULE TraceAlg ------------------------------
(* code -> spec: validation of traces recorded from the real library under  *)
(* the toy ciphersuite (any toy field, in particular the witness field      *)
(* q = 23099) against the same actions the model checker explores.          *)
(*                                                                          *)
(* One trace line = one public call.  Each event carries its arguments (by  *)
(* handle), the random bytes the library consumed and the hash queries it   *)
(* made; the oracle table is loaded from the log before the action runs, so *)
(* the search is linear.  A query the specification needs but the code did  *)
(* not make leaves the action disabled (the answer domains are empty).      *)
(* The specification's expectation of every step is compared key by key     *)
(* with what the code returned; differences are collected in `bad` (one     *)
(* TLC run reports them all) and the rest of that scenario is skipped.      *)
EXTENDS Frost, Json, IOUtils

Rec == ndJsonDeserialize(IOEnv.TRACE)

VARIABLES l,        \* next trace line
          loaded,   \* the oracle answers of line l have been loaded
          skip,     \* the current scenario deviated: ignore it up to the next reset
          bad       \* set of <<line, op, key>> where code and specification differ

tvars == <<fvars, l, loaded, skip, bad>>

E == Rec[l]
Fld(e, f) == f \in DOMAIN e
Served(e) == IF Fld(e.res, "rng_served") THEN e.res.rng_served ELSE << >>
\* a 2-byte draw as Field::random reduces it
Val2(b) == (b[1] * 256 + b[2]) % Q
Vals(e) == [k \in DOMAIN Served(e) |-> Val2(Served(e)[k])]
PairsToFn(ps) == [i \in {ps[k][1] : k \in DOMAIN ps} |-> ps[CHOOSE k \in DOMAIN ps : ps[k][1] = i][2]]
\* random_nonzero: index of the first non-zero value at or after position i
RECURSIVE FirstNZ(_, _)
FirstNZ(vs, i) == IF i > Len(vs) THEN i ELSE IF vs[i] # 0 THEN i ELSE FirstNZ(vs, i + 1)
RngF(e) == [rng |-> Served(e)]

TraceInit ==
  /\ FrostInit
  /\ l = 1 /\ loaded = FALSE /\ skip = FALSE /\ bad = {}

\* the oracle is a function: a logged answer that contradicts an earlier one is a difference
QueryKeys(e) == {<<e.queries[k][1], e.queries[k][2]>> : k \in DOMAIN e.queries}
QueryAns(e, key) == e.queries[CHOOSE k \in DOMAIN e.queries : <<e.queries[k][1], e.queries[k][2]>> = key][3]
Consistent(e) == /\ \A k1, k2 \in DOMAIN e.queries :
                      (e.queries[k1][1] = e.queries[k2][1] /\ e.queries[k1][2] = e.queries[k2][2])
                         => e.queries[k1][3] = e.queries[k2][3]
                 /\ \A key \in QueryKeys(e) \cap DOMAIN ro : ro[key] = QueryAns(e, key)

Reset ==
  /\ E.op = "reset"
  /\ env' = << >> /\ ro' = << >> /\ hist' = << >>
  /\ last' = [op |-> "init", res |-> [ok |-> TRUE]]
  /\ l' = l + 1 /\ loaded' = FALSE /\ skip' = FALSE /\ UNCHANGED bad

Skip ==
  /\ E.op # "reset" /\ skip
  /\ l' = l + 1 /\ UNCHANGED <<fvars, loaded, skip, bad>>

Load ==
  /\ E.op # "reset" /\ ~skip /\ ~loaded
  /\ IF Fld(E, "queries") /\ Consistent(E)
     THEN /\ ro' = [key \in QueryKeys(E) \ DOMAIN ro |-> QueryAns(E, key)] @@ ro
          /\ UNCHANGED <<bad, skip>>
     ELSE /\ ro' = ro
          /\ bad' = bad \cup {<<l, E.op, "oracle_inconsistent">>} /\ skip' = TRUE
  /\ loaded' = TRUE
  /\ UNCHANGED <<env, last, hist, l>>

\* the action of the specification that corresponds to event e
Dkg1Args(e) ==
  LET vs == Vals(e)
      refresh == e.refresh
      i0 == IF refresh THEN 0 ELSE FirstNZ(vs, 1)              \* position of the secret
      nc == Dkg1Draws(e.n, e.t)
      ik == FirstNZ(vs, i0 + nc + 1)                           \* position of the proof nonce
  IN [a0 |-> IF refresh \/ i0 > Len(vs) THEN 0 ELSE vs[i0],
      cs |-> IF i0 + nc <= Len(vs) THEN SubSeq(vs, i0 + 1, i0 + nc) ELSE << >>,
      k  |-> IF ik <= Len(vs) THEN vs[ik] ELSE 0,
      exact |-> (ik = Len(vs)) \/ (nc = 0 /\ Len(vs) = 0)]

ActFor(e) ==
  CASE e.op = "split" ->
         (IF Fld(e, "key")
          THEN ActSplit(e.out_ss, e.out_pkp, e.key, e.n, e.t, IF e.custom THEN e.ids ELSE << >>, e.custom, Vals(e))
          ELSE LET vs == Vals(e)
                   i0 == FirstNZ(vs, 1)
               IN i0 <= Len(vs) /\
                  ActSplit(e.out_ss, e.out_pkp, vs[i0], e.n, e.t, IF e.custom THEN e.ids ELSE << >>, e.custom,
                           SubSeq(vs, i0 + 1, Len(vs))))
    [] e.op = "kp_from_ss"   -> ActKpFromSs(e.out, e.ss)
    [] e.op = "tamper_ss"    -> ActTamperSs(e.out, e.src, e.what, e.k, e.d)
    [] e.op = "lie_min"      -> ActLieMin(e.out, e.src, e.min)
    [] e.op = "reconstruct"  -> ActReconstruct(e.kps)
    [] e.op = "commit"       -> Len(Served(e)) = 2 /\ ActCommitR(e.out_non, e.out_comm, e.kp, Served(e)[1], Served(e)[2], RngF(e))
    [] e.op = "preprocess"   -> Len(Served(e)) = 2 * e.k /\ ActPreprocessR(e.out_non, e.out_comm, e.kp, Served(e), RngF(e))
    [] e.op = "tamper_comm"  -> ActTamperComm(e.out, e.src, e.what, IF Fld(e, "d") THEN e.d ELSE 0)
    [] e.op = "package"      -> ActPackage(e.out, e.msg, PairsToFn(e.slots))
    [] e.op = "sign"         -> ActSign(e.out, e.pkg, e.non, e.kp)
    [] e.op = "tamper_share" -> ActTamperShare(e.out, e.src, e.how, IF Fld(e, "d") THEN e.d ELSE 0)
    [] e.op = "verify_share" -> ActVerifyShareK(e.id, e.vsid, e.pkp, e.share, e.pkg, IF Fld(e, "vk") THEN e.vk ELSE e.pkp)
    [] e.op = "aggregate"    ->
         (IF Fld(e, "rp") THEN ActRrAggregate(e.out, e.pkg, PairsToFn(e.shares), e.pkp, e.mode, e.rp)
          ELSE ActAggregate(e.out, e.pkg, PairsToFn(e.shares), e.pkp, e.mode))
    [] e.op = "verify"       -> ActVerifyUnder(e.pkp, e.msg, e.sig)
    [] e.op = "dkg1"         ->
         LET a == Dkg1Args(e) IN
         /\ a.exact /\ Len(a.cs) = Dkg1Draws(e.n, e.t)
         /\ ActDkg1(e.out_sec, e.out_pkg, e.id, e.n, e.t, a.a0, a.cs, a.k, e.refresh)
    [] e.op = "tamper_r1"    -> ActTamperR1(e.out, e.src, e.what, e.k, e.d)
    [] e.op = "tamper_r2"    -> ActTamperR2(e.out, e.src, e.d)
    [] e.op = "zero_r2"      -> ActZeroR2(e.out, e.src)
    [] e.op = "dkg2"         -> ActDkg2(e.out_sec, e.out_r2, e.sec, PairsToFn(e.r1), e.refresh)
    [] e.op = "dkg3"         ->
         ActDkg3(e.out_kp, e.out_pkp, e.sec, PairsToFn(e.r1), PairsToFn(e.r2), e.refresh,
                 IF e.refresh THEN e.old_pkp ELSE <<"none", 0>>, IF e.refresh THEN e.old_kp ELSE <<"none", 0>>)
    [] e.op = "refresh_shares" -> ActRefreshShares(e.out_ss, e.out_pkp, e.pkp, e.ids, Vals(e))
    [] e.op = "refresh_share"  -> ActRefreshShare(e.out, e.ss, e.kp)
    [] e.op = "repair1"      -> ActRepair1(e.out, e.helpers, e.kp, Vals(e), e.target)
    [] e.op = "repair2"      -> ActRepair2(e.out, e.deltas)
    [] e.op = "repair3"      -> ActRepair3(e.out, e.sigmas, e.id, e.pkp)
    [] e.op = "rr_new"       -> Len(Served(e)) = 1 /\ ActRrNew(e.out, e.out_seed, e.pkp, e.pkg, Served(e)[1])
    [] e.op = "rr_regen"     -> ActRrRegen(e.out, e.pkp, e.seed, e.pkg)
    [] e.op = "rr_fixed"     -> ActRrFixed(e.out, e.pkp, e.alpha)
    [] e.op = "tamper_seed"  -> ActTamperSeedHow(e.out, e.src, IF Fld(e, "how") THEN e.how ELSE "last", e.d)
    [] e.op = "rr_sign"      -> ActRrSign(e.out, e.pkg, e.non, e.kp, e.seed)
    [] e.op = "rr_sign_fixed" -> ActRrSignFixed(e.out, e.pkg, e.non, e.kp, e.rp)
    [] e.op = "mk_sk"        -> ActMkSk(e.out, e.key)
    [] e.op = "single_sign"  ->
         LET vs == Vals(e)
             ik == FirstNZ(vs, 1)
         IN ik = Len(vs) /\ ActSingleSign(e.out, e.sk, ik - 1, vs[ik], e.msg)
    [] e.op = "tamper_sig"   -> ActTamperSig(e.out, e.src, e.what, e.d)
    [] e.op = "batch"        ->
         ActBatch([k \in DOMAIN e.items |-> [vk |-> e.items[k][1], sig |-> e.items[k][2], msg |-> e.items[k][3]]],
                  IF Len(Vals(e)) = Len(e.items) THEN Vals(e) ELSE [k \in DOMAIN e.items |-> 0])
    [] e.op = "reload"       -> ActReload(e.h, e.form)
    [] e.op = "neg_nonces"   -> ActNegNonces(e.out, e.src)
    [] e.op = "graft_proof"  -> ActGraftProof(e.out, e.commit_of, e.proof_of)
    [] OTHER -> FALSE

Known(e) == e.op \in {"split", "kp_from_ss", "tamper_ss", "lie_min", "reconstruct", "commit", "preprocess",
   "tamper_comm", "package", "sign", "tamper_share", "verify_share", "aggregate", "verify", "dkg1", "tamper_r1",
   "tamper_r2", "zero_r2", "dkg2", "dkg3", "refresh_shares", "refresh_share", "repair1", "repair2", "repair3", "rr_new",
   "rr_regen", "rr_fixed", "tamper_seed", "rr_sign", "rr_sign_fixed", "mk_sk", "single_sign", "tamper_sig", "batch",
   "reload", "neg_nonces", "graft_proof"}

\* keys on which the specification's expectation and the code's result differ
Diff(step, res) ==
  IF "expect" \notin DOMAIN step THEN {}
  ELSE {k \in DOMAIN step.expect : k \notin DOMAIN res \/ res[k] # step.expect[k]}

Exec ==
  /\ E.op # "reset" /\ ~skip /\ loaded
  /\ l' = l + 1 /\ loaded' = FALSE
  /\ IF ~Known(E)
     THEN \* an event the specification has no action for: not validated, not an error
          /\ UNCHANGED <<fvars, bad>> /\ skip' = TRUE
     ELSE \/ /\ ActFor(E)
             /\ LET d == Diff(hist'[Len(hist')], E.res) IN
                /\ bad' = bad \cup {<<l, E.op, k>> : k \in d}
                /\ skip' = (d # {})
          \/ /\ ~ENABLED ActFor(E)
             /\ bad' = bad \cup {<<l, E.op, "blocked">>} /\ skip' = TRUE
             /\ UNCHANGED fvars

TraceNext == (l <= Len(Rec)) /\ (Reset \/ Skip \/ Load \/ Exec)
TraceSpec == TraceInit /\ [][TraceNext]_tvars

\* acceptance: the whole trace was consumed; the differences found are printed
Consumed == (l = Len(Rec) + 1) => PrintT(<<"TRACE-RESULT", Len(Rec), bad>>)
=============================================================================
