----------------------------- MODULE TraceInterop -----------------------------
(* C02: single-signer interoperability and the identifier encoding.          *)
(*  interop  signatures made by the library's single-signer entry point are   *)
(*           accepted by the independent verifier (ed25519-dalek              *)
(*           verify_strict, libsecp256k1 BIP-340) and vice versa; an altered  *)
(*           signature is rejected by both                                    *)
(*  idenc    Identifier::try_from(n) is the RFC's integer-to-scalar encoding: *)
(*           n as a fixed-width integer in the suite's byte order; 0 is       *)
(*           refused                                                          *)
(*  idu16    toy suite, every n in 0..65535: n mod q, an error iff that is 0  *)
(*  wrapper  every function a suite crate re-exports returns, on the same     *)
(*           arguments and random stream, what the generic function returns   *)
(*           (all other bindings observe the generic functions only)          *)
EXTENDS Integers, Sequences, TLC, Json, IOUtils

CONSTANT Q
Rec == ndJsonDeserialize(IOEnv.TRACE)
VARIABLES l, bad
tvars == <<l, bad>>
E == Rec[l]
Fld(e, f) == f \in DOMAIN e

\* n as a big-endian integer of `len` bytes
RECURSIVE BE(_, _)
BE(n, len) == IF len = 0 THEN << >> ELSE Append(BE(n \div 256, len - 1), n % 256)
Rev(s) == [k \in 1..Len(s) |-> s[Len(s) + 1 - k]]
\* Ed448 scalars carry a 57th byte that is always zero: the integer occupies the first 56
IdEnc(n, len, le) == IF le THEN (IF len = 57 THEN Append(Rev(BE(n, 56)), 0) ELSE Rev(BE(n, len))) ELSE BE(n, len)

Laws(e) ==
  CASE e.op = "interop" ->
         (IF ~e.lib_ok THEN {"library_rejects_" \o e.dir} ELSE {})
         \cup (IF Fld(e, "ext_ok") /\ ~e.ext_ok THEN {"independent_verifier_rejects"} ELSE {})
         \cup (IF Fld(e, "lib_rejects_altered") /\ ~e.lib_rejects_altered THEN {"library_accepts_altered"} ELSE {})
         \cup (IF Fld(e, "ext_rejects_altered") /\ ~e.ext_rejects_altered THEN {"independent_verifier_accepts_altered"} ELSE {})
    [] e.op = "idenc" ->
         (IF e.n = 0 /\ e.ok THEN {"zero_identifier_accepted"} ELSE {})
         \cup (IF e.n # 0 /\ ~e.ok THEN {"identifier_refused"} ELSE {})
         \cup (IF e.n # 0 /\ e.ok /\ e.bytes # IdEnc(e.n, e.len, e.le) THEN {"identifier_encoding"} ELSE {})
    [] e.op = "idu16" ->
         (IF e.q # Q THEN {"field_mismatch"} ELSE {})
         \cup (IF e.q = Q /\ \E n \in 0..65535 : e.vals[n + 1] # (IF n % Q = 0 THEN -1 ELSE n % Q) THEN {"u16_to_identifier"} ELSE {})
    [] e.op = "wrapper" ->
         (IF ~e.equal THEN {"wrapper_differs_from_generic_" \o e.fn} ELSE {})
    [] OTHER -> {}

TraceInit == l = 1 /\ bad = {}
Step == /\ l <= Len(Rec) /\ l' = l + 1
        /\ bad' = bad \cup {<<l, E.op, k>> : k \in Laws(E)}
TraceSpec == TraceInit /\ [][Step]_tvars
Consumed == (l = Len(Rec) + 1) => PrintT(<<"TRACE-RESULT", Len(Rec), bad>>)
=============================================================================
