---------------------------- MODULE TraceTaproot ----------------------------
(* C18, code -> spec: one event per signing session of the real Taproot      *)
(* suite (dealer or DKG keys, sign_with_tweak / aggregate_with_tweak, share  *)
(* verification under the tweaked package, a fault matrix on one signer in   *)
(* the three detection modes).  The outcome rules are those the model        *)
(* spec/props/C18.tla establishes for every parity combination:              *)
(*   honest session  => aggregation succeeds, every share verifies, the      *)
(*                      64-byte signature is a BIP-340 signature for the     *)
(*                      BIP-341 output key -- computed independently by      *)
(*                      libsecp256k1 (x-only tweak-add) and sha2 (tagged     *)
(*                      hash) -- and not for the internal key;               *)
(*   one altered share => no signature; detection names exactly that signer  *)
(*                      (nobody when detection is disabled).                 *)
(* Acceptance also requires that all 2 x 4 x 8 combinations of key source,   *)
(* root kind and (internal, output, commitment) parity were observed.        *)
EXTENDS Naturals, Sequences, FiniteSets, TLC, Json, IOUtils

Rec == ndJsonDeserialize(IOEnv.TRACE)
VARIABLES l, bad, seen
tvars == <<l, bad, seen>>
E == Rec[l]
Fld(e, f) == f \in DOMAIN e
T(e, f) == Fld(e, f) /\ e[f]

FaultLaws(e) ==
  UNION {
    LET f == e.faults[k] IN
      (IF f.ok THEN {"fault_released_" \o f.kind} ELSE {})
      \cup (IF ~f.ok /\ f.mode = "Disabled" /\ f.n_culprits # 0 THEN {"disabled_names_someone"} ELSE {})
      \cup (IF ~f.ok /\ f.mode # "Disabled" /\ (f.n_culprits # 1 \/ ~f.only_victim)
            THEN {"culprits_" \o f.kind \o "_" \o f.mode} ELSE {})
    : k \in DOMAIN e.faults }

Laws(e) ==
  (IF ~T(e, "agg_ok") THEN {"aggregate_failed"} ELSE {})
  \cup (IF ~T(e, "shares_ok") THEN {"share_rejected"} ELSE {})
  \cup (IF ~(Fld(e, "sig_len") /\ e.sig_len = 64) THEN {"sig_len"} ELSE {})
  \cup (IF ~T(e, "bip340_output_key") THEN {"bip340_output_key"} ELSE {})
  \cup (IF ~T(e, "output_key_matches") THEN {"output_key_differs_from_bip341"} ELSE {})
  \cup (IF T(e, "bip340_internal_key") THEN {"verifies_under_untweaked_key"} ELSE {})
  \cup (IF ~T(e, "lib_verify") THEN {"lib_verify"} ELSE {})
  \cup (IF T(e, "lib_verify_untweaked") THEN {"lib_verifies_under_untweaked_key"} ELSE {})
  \cup (IF Fld(e, "indep_output_even") /\ e.indep_output_even # e.p_tweaked THEN {"output_parity"} ELSE {})
  \cup (IF e.dkg /\ ~T(e, "dkg_key_is_keypath_tweak") THEN {"dkg_key_not_keypath_tweak"} ELSE {})
  \cup FaultLaws(e)

Combo(e) == <<e.dkg, e.root, e.p_internal, e.p_tweaked, IF Fld(e, "p_commitment") THEN e.p_commitment ELSE TRUE>>
AllCombos == BOOLEAN \X {"absent", "empty", "h32", "h100"} \X BOOLEAN \X BOOLEAN \X BOOLEAN

TraceInit == l = 1 /\ bad = {} /\ seen = {}
Step ==
  /\ l <= Len(Rec)
  /\ l' = l + 1
  /\ IF E.op = "tr_session"
     THEN bad' = bad \cup {<<l, E.op, k>> : k \in Laws(E)} /\ seen' = seen \cup {Combo(E)}
     ELSE UNCHANGED <<bad, seen>>
TraceSpec == TraceInit /\ [][Step]_tvars
Missing == AllCombos \ seen
Consumed == (l = Len(Rec) + 1) =>
   PrintT(<<"TRACE-RESULT", Len(Rec), bad \cup (IF Missing # {} THEN {<<0, "coverage", "parity_combination_missing">>} ELSE {})>>)
=============================================================================
