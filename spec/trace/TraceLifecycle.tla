--------------------------- MODULE TraceLifecycle ---------------------------
(* C20, code -> spec: events of the allocator-level observer, the getters    *)
(* after zeroize() and the debug scan, checked against the clause table of   *)
(* FrostLifecycle.  An event in which the observer's control (a plain copy   *)
(* of the same secrets, dropped without wiping) was *not* seen is a tool     *)
(* failure, not a verdict.                                                   *)
EXTENDS FrostLifecycle, Sequences, Json, IOUtils

Rec == ndJsonDeserialize(IOEnv.TRACE)
VARIABLES l, bad, covered
tvars == <<l, bad, covered, objs>>
E == Rec[l]

Laws(e) ==
  CASE e.action = "drop" ->
         (IF e.control_found = 0 THEN {"observer_blind"} ELSE {})
         \cup (IF e.ty \notin Types THEN {"unknown_type"} ELSE {})
         \cup (IF e.ty \in Types /\ WipesOnDrop(e.ty) /\ e.found_after_drop # 0 THEN {"secret_in_freed_storage"} ELSE {})
    [] e.action = "zeroize" ->
         (IF e.ty \in Types /\ OffersZeroize(e.ty) /\ ~e.all_zero THEN {"secret_survives_zeroize"} ELSE {})
    [] e.action = "debug" ->
         (IF e.leaked THEN {"secret_in_debug_output"} ELSE {})
    [] OTHER -> {}

TraceInit == l = 1 /\ bad = {} /\ covered = {} /\ objs = << >>
Step ==
  /\ l <= Len(Rec)
  /\ l' = l + 1
  /\ UNCHANGED objs
  /\ IF E.op = "lifecycle"
     THEN bad' = bad \cup {<<l, E.ty, k>> : k \in Laws(E)} /\ covered' = covered \cup {<<E.ty, E.action>>}
     ELSE UNCHANGED <<bad, covered>>
TraceSpec == TraceInit /\ [][Step]_tvars

\* every clause of the table was exercised
Required == {<<ty, "drop">> : ty \in {t \in Types : WipesOnDrop(t)}}
            \cup {<<ty, "zeroize">> : ty \in {t \in Types : OffersZeroize(t)}}
            \cup {<<ty, "debug">> : ty \in {t \in Types : HasDebug(t)}}
Consumed == (l = Len(Rec) + 1) =>
   PrintT(<<"TRACE-RESULT", Len(Rec), bad \cup {<<0, r[1], "not_exercised_" \o r[2]>> : r \in Required \ covered}>>)
=============================================================================
