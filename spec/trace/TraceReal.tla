------------------------------ MODULE TraceReal ------------------------------
(* code -> spec for the six real ciphersuites.  TLC cannot compute in their *)
(* fields, so the *generic* outcome of every step is obtained from the      *)
(* specification through a witness: the same value-free scenario is run on  *)
(* the toy ciphersuite over the witness field (q = 23099) with two seeds,   *)
(* both witness traces are validated exactly by TraceAlg, and where the two *)
(* agree on a step's projection (outcome class, culprits, threshold,        *)
(* equalities) that projection is the outcome the specification prescribes  *)
(* whenever no value coincidence occurs -- which in a 252-bit field is      *)
(* always.  Each real-suite event carries that projection as `wit`; this    *)
(* module compares it with what the real suite returned and checks laws     *)
(* that need no values: culprit lists ascend in identifier order, a         *)
(* signature that verifies also verifies after a wire round trip and under  *)
(* the independent verifier (ed25519-dalek verify_strict, libsecp256k1      *)
(* BIP-340), restored state equals the saved state.                         *)
EXTENDS Naturals, Sequences, FiniteSets, TLC, Json, IOUtils

Rec == ndJsonDeserialize(IOEnv.TRACE)

VARIABLES l, bad, okset, firstc
tvars == <<l, bad, okset, firstc>>

E == Rec[l]
Fld(e, f) == f \in DOMAIN e
Range(s) == {s[k] : k \in DOMAIN s}

RECURSIVE LexLess(_, _)
LexLess(a, b) ==
  IF a = << >> THEN b # << >>
  ELSE IF b = << >> THEN FALSE
  ELSE IF Head(a) < Head(b) THEN TRUE
  ELSE IF Head(a) > Head(b) THEN FALSE
  ELSE LexLess(Tail(a), Tail(b))

Ascending(bs) == \A k \in 1..(Len(bs) - 1) : LexLess(bs[k], bs[k + 1])

\* keys on which the real suite differs from the specification's generic outcome
WitDiff(e) ==
  IF ~Fld(e, "wit") THEN {}
  ELSE {k \in DOMAIN e.wit :
          \/ k \notin DOMAIN e.res
          \/ IF k = "culprits" /\ Fld(e, "unordered")
             THEN Range(e.res[k]) # Range(e.wit[k]) \/ Len(e.res[k]) # Len(e.wit[k])
             ELSE e.res[k] # e.wit[k]}

Laws(e) ==
  (IF Fld(e.res, "culprits_be") /\ ~Ascending(e.res.culprits_be) THEN {"culprits_order"} ELSE {})
  \cup (IF e.op = "verify" /\ e.res.ok /\ Fld(e.res, "roundtrip_ok") /\ ~e.res.roundtrip_ok THEN {"roundtrip_ok"} ELSE {})
  \cup (IF e.op = "verify" /\ Fld(e.res, "ext_ok") /\ e.res.ext_ok # e.res.ok THEN {"ext_ok"} ELSE {})
  \cup (IF e.op = "reload" /\ e.res.ok /\ Fld(e.res, "same") /\ ~e.res.same THEN {"same"} ELSE {})
  \cup (IF Fld(e.res, "panic") THEN {"panic"} ELSE {})
  \* a signature released by aggregate must verify when it is verified later
  \cup (IF e.op = "verify" /\ Fld(e, "sig") /\ e.sig \in okset /\ ~e.res.ok /\ Fld(e, "wit") /\ e.wit.ok THEN {"released_invalid"} ELSE {})

\* the coordinator's inputs of an aggregate call (detection mode aside)
AggKey(e) == <<e.pkg, e.shares, e.pkp, IF Fld(e, "rp") THEN e.rp ELSE <<"none", 0>>>>

\* FirstCheater must name the first of the participants AllCheaters names for
\* the same inputs (the lowest identifier: AllCheaters lists ascend)
FirstVsAll(e) ==
  IF e.op = "aggregate" /\ Fld(e, "mode") /\ e.mode = "AllCheaters" /\ AggKey(e) \in DOMAIN firstc
     /\ Fld(e.res, "culprits_be") /\ e.res.culprits_be # << >>
     /\ firstc[AggKey(e)] # <<e.res.culprits_be[1]>>
  THEN {"first_vs_all"} ELSE {}

TraceInit == l = 1 /\ bad = {} /\ okset = {} /\ firstc = << >>

Step ==
  /\ l <= Len(Rec)
  /\ l' = l + 1
  /\ IF E.op = "reset"
     THEN bad' = bad /\ okset' = {} /\ firstc' = << >>
     ELSE /\ bad' = bad \cup {<<l, E.op, k>> : k \in WitDiff(E) \cup Laws(E) \cup FirstVsAll(E)}
          /\ firstc' = IF E.op = "aggregate" /\ Fld(E, "mode") /\ E.mode = "FirstCheater" /\ Fld(E.res, "culprits_be")
                        THEN (AggKey(E) :> E.res.culprits_be) @@ firstc ELSE firstc
          /\ okset' = IF E.op = "aggregate" /\ E.res.ok /\ Fld(E, "out") THEN okset \cup {E.out} ELSE okset

TraceSpec == TraceInit /\ [][Step]_tvars
Consumed == (l = Len(Rec) + 1) => PrintT(<<"TRACE-RESULT", Len(Rec), bad>>)
=============================================================================
