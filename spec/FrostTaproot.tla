---------------------------- MODULE FrostTaproot ----------------------------
(* The Taproot ciphersuite's overrides (frost-secp256k1-tr/src/lib.rs) as    *)
(* algebra over the toy field with an abstract parity: a non-identity group  *)
(* element x has "even Y" iff x <= (Q-1)/2, so exactly one of x, -x is even. *)
(* Mirrors: EvenY / Tweak for KeyPackage and PublicKeyPackage (602-795),     *)
(* pre_sign / pre_aggregate (even-Y normalisation of the tweaked key),       *)
(* compute_signature_share (nonces negated iff the group commitment has odd  *)
(* Y, 397-420), verify_share (commitment share negated iff odd, 422-445),    *)
(* challenge over x coordinates only (384-394), pre_verify, post_dkg.        *)
EXTENDS FrostField

Even(x) == x >= 1 /\ x <= (Q - 1) \div 2
Lift(x) == IF Even(x) THEN x ELSE Neg(x)         \* the even-Y point with the same x coordinate
\* the x coordinate of a point, as a canonical representative (sign-independent)
XOf(x) == Lift(x)

\* key package [id, share, vs, vk, min] / public package [vs, vk, min]
EvenKp(kp)   == IF Even(kp.vk) THEN kp
                ELSE [kp EXCEPT !.share = Neg(@), !.vs = Neg(@), !.vk = Neg(@)]
EvenPkp(p)   == IF Even(p.vk) THEN p
                ELSE [p EXCEPT !.vk = Neg(@), !.vs = [i \in DOMAIN p.vs |-> Neg(p.vs[i])]]
\* Tweak: t is computed from the x coordinate of the *given* key, then the key is
\* normalised to even Y, then t*G is added everywhere (sound because sum(lambda_i) = 1)
TweakKp(kp, t)  == LET e == EvenKp(kp) IN [e EXCEPT !.share = Add(@, t), !.vs = Add(@, t), !.vk = Add(@, t)]
TweakPkp(p, t)  == LET e == EvenPkp(p) IN [e EXCEPT !.vk = Add(@, t), !.vs = [i \in DOMAIN e.vs |-> Add(e.vs[i], t)]]

\* sign(): pre_sign normalises the (tweaked) key package; nonces negated iff R odd
TrShare(kp, d, e, rho, lam, c, R) ==
  LET k == EvenKp(kp)
      nd == IF Even(R) THEN d ELSE Neg(d)
      ne == IF Even(R) THEN e ELSE Neg(e)
  IN Add(Add(nd, Mul(ne, rho)), Mul(Mul(lam, k.share), c))

\* verify_share: commitment share negated iff R odd; verifying share of the normalised package
TrShareHolds(pkp, i, z, Ri, lam, c, R) ==
  LET p == EvenPkp(pkp)
      ri == IF Even(R) THEN Ri ELSE Neg(Ri)
  IN z = Add(ri, Mul(Mul(c, lam), p.vs[i]))

\* verification (pre_verify): key and R replaced by their even lifts
TrVerifies(vk, R, z, c) == z = Add(Lift(R), Mul(c, Lift(vk)))
=============================================================================
