----------------------------- MODULE FrostCore -----------------------------
(* The library's entry points as functions of their arguments and of the    *)
(* random-oracle table `ro`, with each validation ladder in the order the   *)
(* code performs it.  Every function is *resumable*: when it reaches a hash *)
(* query whose answer is not yet in `ro` it returns [need |-> key, dom |->  *)
(* answers]; the state machine (Frost.tla) samples the answer lazily and    *)
(* calls again.  Results: [ok |-> TRUE, ...] or [ok |-> FALSE, err, culprits]*)
(*                                                                          *)
(* Abstract objects (records):                                              *)
(*   ss   [id, share, commit]              keys::SecretShare                *)
(*   kp   [id, share, vs, vk, min]         keys::KeyPackage                 *)
(*   pkp  [vs : id -> elem, vk, min]       keys::PublicKeyPackage (-1=None) *)
(*   non  [hiding, binding, D, E]          round1::SigningNonces            *)
(*   pkg  [msg, comms : id -> [D, E]]      SigningPackage                   *)
(*   sig  [R, z]                           Signature                        *)
EXTENDS FrostCodec

CONSTANTS DomH1, DomH2, DomH3, DomH4, DomH5, DomHDKG, DomHR, DomHID

Ok(r)        == [ok |-> TRUE] @@ r
Err(e)       == [ok |-> FALSE, err |-> e, culprits |-> <<>>]
ErrC(e, cs)  == [ok |-> FALSE, err |-> e, culprits |-> cs]
Need(k, d)   == [need |-> k, dom |-> d]
IsNeed(r)    == "need" \in DOMAIN r
Stop(r)      == IsNeed(r) \/ ~r.ok          \* propagate a query or an error

Card(S) == Cardinality(S)
HasDup(s) == Card({s[k] : k \in DOMAIN s}) # Len(s)

-----------------------------------------------------------------------------
(* keys.rs *)

ParamErr(n, t) == IF t < 2 THEN "InvalidMinSigners"
                  ELSE IF n < 2 THEN "InvalidMaxSigners"
                  ELSE IF t > n THEN "InvalidMinSigners" ELSE "none"

DefaultIds(n) == [k \in 1..n |-> k]

\* number of Field::random draws split() makes before it can fail later
SplitDraws(n, t, ids, custom) ==
  IF ParamErr(n, t) # "none" THEN 0
  ELSE IF custom /\ Len(ids) # n THEN 0 ELSE t - 1

\* split(key, n, t, ids, rng): `coeffs` are the t-1 drawn scalars
Split(key, n, t, ids, custom, coeffs) ==
  IF ParamErr(n, t) # "none" THEN Err(ParamErr(n, t))
  ELSE IF custom /\ Len(ids) # n THEN Err("IncorrectNumberOfIdentifiers")
  ELSE LET idl == IF custom THEN ids ELSE DefaultIds(n)
           poly == <<key>> \o coeffs
           idset == {idl[k] : k \in DOMAIN idl}
       IN IF HasDup(idl) THEN Err("DuplicatedIdentifier")
          ELSE Ok([shares |-> [i \in idset |-> EvalPoly(poly, i)],
                   commit |-> poly,
                   vs     |-> [i \in idset |-> EvalPoly(poly, i)],
                   vk     |-> key,
                   min    |-> t])

\* KeyPackage::try_from(SecretShare): VSS check, threshold = commitment length
KpFromSs(ss) ==
  IF ss.share # EvalPoly(ss.commit, ss.id) THEN Err("InvalidSecretShare")
  ELSE IF ss.commit = <<>> THEN Err("MissingCommitment")
  ELSE Ok([id |-> ss.id, share |-> ss.share, vs |-> EvalPoly(ss.commit, ss.id),
           vk |-> ss.commit[1], min |-> Len(ss.commit)])

\* reconstruct(key_packages): kps is a sequence of kp records
Reconstruct(kps) ==
  IF kps = <<>> THEN Err("IncorrectNumberOfShares")
  ELSE LET m == Min({kps[k].min : k \in DOMAIN kps})
           ids == {kps[k].id : k \in DOMAIN kps}
       IN IF Len(kps) < m THEN Err("IncorrectNumberOfShares")
          ELSE IF Card(ids) # Len(kps) THEN Err("DuplicatedIdentifier")
          ELSE Ok([key |-> SumSeq([k \in DOMAIN kps |->
                              Mul(Lagrange(ids, -1, kps[k].id), kps[k].share)])])

\* PublicKeyPackage::from_commitment
PkpFromCommitment(ids, commit) ==
  IF commit = <<>> THEN Err("IncorrectCommitment")
  ELSE Ok([vs |-> [i \in ids |-> EvalPoly(commit, i)], vk |-> commit[1], min |-> Len(commit)])

-----------------------------------------------------------------------------
(* round1.rs *)

\* commit(share, rng): two 32-byte draws r1, r2 (hiding first), nonce = H3(bytes || share)
Commit(ro, share, r1, r2) ==
  LET k1 == KeyH3(r1, share)
      k2 == KeyH3(r2, share)
  IN IF k1 \notin DOMAIN ro THEN Need(k1, DomH3)
     ELSE IF k2 \notin DOMAIN ro THEN Need(k2, DomH3)
     ELSE Ok([hiding |-> ro[k1], binding |-> ro[k2], D |-> ro[k1], E |-> ro[k2]])

-----------------------------------------------------------------------------
(* lib.rs: binding factors, group commitment *)

BindingFactors(ro, pkg, vk) ==
  IF IsIdent(vk) THEN Err("GroupError")
  ELSE LET k4 == KeyH4(pkg.msg) IN
    IF k4 \notin DOMAIN ro THEN Need(k4, DomH4)
    ELSE IF ListHasIdent(pkg.comms) THEN Err("GroupError")
    ELSE LET k5 == KeyH5(pkg.comms) IN
      IF k5 \notin DOMAIN ro THEN Need(k5, DomH5)
      ELSE LET keys == [i \in DOMAIN pkg.comms |-> KeyH1(vk, ro[k4], ro[k5], i)]
               missing == {i \in DOMAIN pkg.comms : keys[i] \notin DOMAIN ro}
           IN IF missing # {} THEN Need(keys[Min(missing)], DomH1)
              ELSE Ok([rho |-> [i \in DOMAIN pkg.comms |-> ro[keys[i]]]])

GroupCommit(pkg, rho) ==
  SumOver(DOMAIN pkg.comms, LAMBDA i : Add(pkg.comms[i].D, Mul(rho[i], pkg.comms[i].E)))

\* the plain Schnorr check z*G - c*A - R == 0 in discrete-log form
SchnorrHolds(R, z, c, vk) == z = Add(R, Mul(c, vk))

\* VerifyingKey::verify (default verify_signature)
Verify(ro, vk, msg, sig) ==
  IF IsIdent(sig.R) \/ IsIdent(vk) THEN Err("GroupError")
  ELSE LET k2 == KeyH2(sig.R, vk, msg) IN
    IF k2 \notin DOMAIN ro THEN Need(k2, DomH2)
    ELSE IF SchnorrHolds(sig.R, sig.z, ro[k2], vk) THEN Ok([v |-> TRUE])
         ELSE Err("InvalidSignature")

-----------------------------------------------------------------------------
(* round2.rs: sign *)

Sign(ro, pkg, non, kp) ==
  IF Card(DOMAIN pkg.comms) < kp.min THEN Err("IncorrectNumberOfCommitments")
  ELSE IF kp.id \notin DOMAIN pkg.comms THEN Err("MissingCommitment")
  ELSE IF <<non.D, non.E>> # <<pkg.comms[kp.id].D, pkg.comms[kp.id].E>>
       THEN Err("IncorrectCommitment")
  ELSE LET b == BindingFactors(ro, pkg, kp.vk) IN
    IF Stop(b) THEN b
    ELSE LET R == GroupCommit(pkg, b.rho)
             lam == Lagrange(DOMAIN pkg.comms, -1, kp.id)
         IN IF IsIdent(R) THEN Err("GroupError")
            ELSE LET k2 == KeyH2(R, kp.vk, pkg.msg) IN
              IF k2 \notin DOMAIN ro THEN Need(k2, DomH2)
              ELSE Ok([z |-> Add(Add(non.hiding, Mul(non.binding, b.rho[kp.id])),
                                 Mul(Mul(lam, kp.share), ro[k2]))])

\* the per-share relation z_i*G == (D_i + rho_i E_i) + (c*lambda_i) Y_i
ShareHolds(pkg, rho, c, id, z, Y) ==
  z = Add(Add(pkg.comms[id].D, Mul(rho[id], pkg.comms[id].E)),
          Mul(Mul(c, Lagrange(DOMAIN pkg.comms, -1, id)), Y))

\* verify_signature_share(id, verifying_share, share, pkg, verifying_key)
VerifyShare(ro, id, Y, z, pkg, vk) ==
  LET b == BindingFactors(ro, pkg, vk) IN
  IF Stop(b) THEN b
  ELSE LET R == GroupCommit(pkg, b.rho) IN
    IF IsIdent(R) THEN Err("GroupError")
    ELSE LET k2 == KeyH2(R, vk, pkg.msg) IN
      IF k2 \notin DOMAIN ro THEN Need(k2, DomH2)
      ELSE IF id \notin DOMAIN pkg.comms THEN Err("UnknownIdentifier")
      ELSE IF ShareHolds(pkg, b.rho, ro[k2], id, z, Y) THEN Ok([v |-> TRUE])
           ELSE ErrC("InvalidSignatureShare", <<id>>)

\* aggregate_custom(pkg, shares : id -> z, pkp, mode)
Aggregate(ro, pkg, shares, pkp, mode) ==
  IF Card(DOMAIN pkg.comms) # Card(DOMAIN shares) THEN Err("UnknownIdentifier")
  ELSE IF pkp.min # -1 /\ Card(DOMAIN shares) < pkp.min THEN Err("IncorrectNumberOfShares")
  ELSE IF ~ \A i \in DOMAIN pkg.comms :
              i \in DOMAIN shares /\ (mode = "Disabled" \/ i \in DOMAIN pkp.vs)
       THEN Err("UnknownIdentifier")
  ELSE LET b == BindingFactors(ro, pkg, pkp.vk) IN
    IF Stop(b) THEN b
    ELSE LET R == GroupCommit(pkg, b.rho)
             z == SumOver(DOMAIN shares, LAMBDA i : shares[i])
         IN IF IsIdent(R) THEN Err("GroupError")
            ELSE LET k2 == KeyH2(R, pkp.vk, pkg.msg) IN
              IF k2 \notin DOMAIN ro THEN Need(k2, DomH2)
              ELSE IF SchnorrHolds(R, z, ro[k2], pkp.vk) THEN Ok([R |-> R, z |-> z])
              ELSE IF mode = "Disabled" THEN Err("InvalidSignature")
              ELSE LET bad == SelectSeq(Sorted(DOMAIN shares),
                                LAMBDA i : ~ShareHolds(pkg, b.rho, ro[k2], i, shares[i], pkp.vs[i]))
                   IN IF bad = <<>> THEN Err("InvalidSignature")
                      ELSE IF mode = "FirstCheater" THEN ErrC("InvalidSignatureShare", <<bad[1]>>)
                      ELSE ErrC("InvalidSignatureShare", bad)

-----------------------------------------------------------------------------
(* keys/dkg.rs and keys/refresh.rs (distributed variant)                     *)
(*   r1s [id, coeffs, commit, min, max]   dkg::round1::SecretPackage        *)
(*   r1p [commit, R, mu]                  dkg::round1::Package              *)
(*   r2s [id, commit, share, min, max]    dkg::round2::SecretPackage        *)
(*   r2p [share]                          dkg::round2::Package              *)
(* `refresh` selects refresh_dkg_part1/2/shares, whose polynomials have a   *)
(* zero constant term and whose stored commitments omit that identity entry.*)

\* part1(id, n, t, rng).  Draws: non-zero secret a0 (not for refresh), t-1
\* coefficients, non-zero proof nonce k.
DkgPart1(ro, id, n, t, a0, coeffs, k, refresh) ==
  IF ParamErr(n, t) # "none" THEN Err(ParamErr(n, t))
  ELSE LET poly == <<(IF refresh THEN 0 ELSE a0)>> \o coeffs
           commit == IF refresh THEN coeffs ELSE poly
           phi == commit[1]          \* what the proof of knowledge commits to
       IN IF IsIdent(phi) THEN Err("GroupError")
          ELSE LET key == KeyHDKG(id, phi, k) IN
            IF key \notin DOMAIN ro THEN Need(key, DomHDKG)
            ELSE Ok([id |-> id, coeffs |-> poly, commit |-> commit, R |-> k,
                     mu |-> Add(k, Mul(poly[1], ro[key])), min |-> t, max |-> n])

\* proofs of knowledge are checked sender by sender in ascending order
RECURSIVE PokScan(_,_,_,_)
PokScan(ro, r1, ids, k) ==
  IF k > Len(ids) THEN Ok([v |-> TRUE])
  ELSE LET l == ids[k]
           p == r1[l]
       IN IF p.commit = << >> THEN Err("MissingCommitment")
          ELSE IF IsIdent(p.commit[1]) \/ IsIdent(p.R) THEN Err("GroupError")
          ELSE LET key == KeyHDKG(l, p.commit[1], p.R) IN
            IF key \notin DOMAIN ro THEN Need(key, DomHDKG)
            ELSE IF p.R # Sub(p.mu, Mul(ro[key], p.commit[1]))
                 THEN ErrC("InvalidProofOfKnowledge", <<l>>)
                 ELSE PokScan(ro, r1, ids, k + 1)

\* part2(secret_package, round1_packages : id -> r1p)
DkgPart2(ro, sec, r1, refresh) ==
  IF Card(DOMAIN r1) # sec.max - 1 THEN Err("IncorrectNumberOfPackages")
  ELSE IF ~refresh /\ sec.id \in DOMAIN r1 THEN Err("UnknownIdentifier")
  ELSE IF \E l \in DOMAIN r1 : Len(r1[l].commit) + (IF refresh THEN 1 ELSE 0) # sec.min
       THEN Err("IncorrectNumberOfCommitments")
  ELSE LET pok == IF refresh THEN Ok([v |-> TRUE]) ELSE PokScan(ro, r1, Sorted(DOMAIN r1), 1) IN
    IF Stop(pok) THEN pok
    ELSE Ok([id |-> sec.id, own |-> EvalPoly(sec.coeffs, sec.id),
             r2 |-> [l \in DOMAIN r1 |-> EvalPoly(sec.coeffs, l)],
             commit |-> sec.commit, min |-> sec.min, max |-> sec.max])

\* sum_commitments over a sequence of commitment vectors (ascending identifier
\* order): the result has the first vector's length; a shorter later vector is
\* an error, a longer one is silently truncated
SumCommitments(cs) ==
  IF cs = << >> THEN Err("IncorrectNumberOfCommitments")
  ELSE LET len == Len(cs[1]) IN
    IF \E k \in DOMAIN cs : Len(cs[k]) < len THEN Err("IncorrectNumberOfCommitments")
    ELSE Ok([sum |-> [j \in 1..len |-> SumSeq([k \in DOMAIN cs |-> cs[k][j]])]])

\* PublicKeyPackage::from_dkg_commitments(map id -> commitment)
PkpFromDkg(cm) ==
  LET ids == Sorted(DOMAIN cm)
      s == SumCommitments([k \in DOMAIN ids |-> cm[ids[k]]])
  IN IF ~s.ok THEN s ELSE PkpFromCommitment(DOMAIN cm, s.sum)

\* shares are verified sender by sender in ascending order of the round-two map
RECURSIVE ShareScan(_,_,_,_,_,_)
ShareScan(r1, r2, me, ids, k, attributed) ==
  IF k > Len(ids) THEN Ok([v |-> TRUE])
  ELSE LET l == ids[k]
           c == r1[l].commit
       IN IF r2[l].share # EvalPoly(c, me)
          THEN (IF attributed THEN ErrC("InvalidSecretShare", <<l>>) ELSE Err("InvalidSecretShare"))
          ELSE IF c = << >> THEN Err("MissingCommitment")
          ELSE ShareScan(r1, r2, me, ids, k + 1, attributed)

\* part3(round2_secret_package, round1_packages, round2_packages)
DkgPart3(sec, r1, r2) ==
  IF Card(DOMAIN r1) # sec.max - 1 THEN Err("IncorrectNumberOfPackages")
  ELSE IF sec.id \in DOMAIN r1 THEN Err("UnknownIdentifier")
  ELSE IF sec.id \in DOMAIN r2 THEN Err("UnknownIdentifier")
  ELSE IF Card(DOMAIN r1) # Card(DOMAIN r2) THEN Err("IncorrectNumberOfPackages")
  ELSE IF \E i \in DOMAIN r1 : i \notin DOMAIN r2 THEN Err("IncorrectPackage")
  ELSE LET scan == ShareScan(r1, r2, sec.id, Sorted(DOMAIN r2), 1, TRUE) IN
    IF ~scan.ok THEN scan
    ELSE LET share == Add(SumOver(DOMAIN r2, LAMBDA l : r2[l].share), sec.share)
             cm == [i \in DOMAIN r1 \cup {sec.id} |-> IF i = sec.id THEN sec.commit ELSE r1[i].commit]
             pk == PkpFromDkg(cm)
         IN IF ~pk.ok THEN pk
            ELSE Ok([kp |-> [id |-> sec.id, share |-> share, vs |-> share, vk |-> pk.vk, min |-> sec.min],
                     pkp |-> [vs |-> pk.vs, vk |-> pk.vk, min |-> pk.min]])

\* refresh_dkg_shares(round2_secret_package, r1, r2, old_pkp, old_kp)
RefreshDkgShares(sec, r1, r2, opkp, okp) ==
  IF sec.min # okp.min THEN Err("InvalidMinSigners")
  ELSE LET r1x == [l \in DOMAIN r1 |-> [r1[l] EXCEPT !.commit = <<0>> \o @]]
           ownc == <<0>> \o sec.commit
       IN
    IF Card(DOMAIN r1) # sec.max - 1 THEN Err("IncorrectNumberOfPackages")
    ELSE IF Card(DOMAIN r1) # Card(DOMAIN r2) THEN Err("IncorrectNumberOfPackages")
    ELSE IF \E i \in DOMAIN r1 : i \notin DOMAIN r2 THEN Err("IncorrectPackage")
    ELSE LET scan == ShareScan(r1x, r2, sec.id, Sorted(DOMAIN r2), 1, FALSE) IN
      IF ~scan.ok THEN scan
      ELSE LET share == Add(Add(SumOver(DOMAIN r2, LAMBDA l : r2[l].share), sec.share), okp.share)
               cm == [i \in DOMAIN r1 \cup {sec.id} |-> IF i = sec.id THEN ownc ELSE r1x[i].commit]
               zp == PkpFromDkg(cm)
           IN IF ~zp.ok THEN zp
              ELSE IF \E i \in DOMAIN zp.vs : i \notin DOMAIN opkp.vs THEN Err("UnknownIdentifier")
              ELSE Ok([kp |-> [id |-> sec.id, share |-> share, vs |-> share, vk |-> opkp.vk, min |-> sec.min],
                       pkp |-> [vs |-> [i \in DOMAIN zp.vs |-> Add(zp.vs[i], opkp.vs[i])],
                                vk |-> opkp.vk, min |-> sec.min]])

-----------------------------------------------------------------------------
(* keys/refresh.rs (trusted dealer) *)

IdsOf(ids) == {ids[k] : k \in DOMAIN ids}

RefreshShapeErr(pkp, ids) ==
  IF pkp.min = -1 THEN "InvalidMinSigners"
  ELSE IF ParamErr(Len(ids), pkp.min) # "none" THEN ParamErr(Len(ids), pkp.min)
  ELSE IF \E k \in DOMAIN ids : ids[k] \notin DOMAIN pkp.vs THEN "UnknownIdentifier"
  ELSE "none"

RefreshDraws(pkp, ids) == IF RefreshShapeErr(pkp, ids) # "none" THEN 0 ELSE pkp.min - 1

\* compute_refreshing_shares(pkp, ids, rng): zero-constant polynomial; the
\* published commitment omits its (identity) first entry
ComputeRefreshingShares(pkp, ids, coeffs) ==
  IF RefreshShapeErr(pkp, ids) # "none" THEN Err(RefreshShapeErr(pkp, ids))
  ELSE IF HasDup(ids) THEN Err("DuplicatedIdentifier")
  ELSE LET poly == <<0>> \o coeffs
           z == [i \in IdsOf(ids) |-> EvalPoly(poly, i)]
       IN Ok([shares |-> z, order |-> ids, commit |-> coeffs,
              pkp |-> [vs |-> [i \in IdsOf(ids) |-> Add(pkp.vs[i], z[i])], vk |-> pkp.vk, min |-> pkp.min]])

\* refresh_share(refreshing_share, current_key_package).
\* INTENDED behaviour (C10): the returned package's verifying share is the
\* generator times the *new* signing share.
RefreshShare(ss, kp) ==
  LET full == [ss EXCEPT !.commit = <<0>> \o @]
      r == KpFromSs(full)
  IN IF ~r.ok THEN r
     ELSE IF r.min # kp.min THEN Err("InvalidMinSigners")
     ELSE LET ns == Add(r.share, kp.share)
          IN Ok([id |-> kp.id, share |-> ns, vs |-> ns, vk |-> kp.vk, min |-> kp.min])

-----------------------------------------------------------------------------
(* keys/repairable.rs *)

\* repair_share_part1(helpers (sequence), key_package_i, rng, participant)
RepairShapeErr(helpers, kp) ==
  IF Len(helpers) < kp.min THEN "IncorrectNumberOfIdentifiers"
  ELSE IF kp.id \notin IdsOf(helpers) THEN "UnknownIdentifier"
  ELSE IF HasDup(helpers) THEN "DuplicatedIdentifier"
  ELSE "none"

RepairDraws(helpers, kp) == IF RepairShapeErr(helpers, kp) # "none" THEN 0 ELSE Len(helpers) - 1

\* the |H|-1 draws go to the helpers in ascending order; the largest helper
\* gets zeta_i * share_i minus their sum
RepairPart1(helpers, kp, draws, x) ==
  IF RepairShapeErr(helpers, kp) # "none" THEN Err(RepairShapeErr(helpers, kp))
  ELSE LET H == IdsOf(helpers)
           hs == Sorted(H)
           zeta == Lagrange(H, x, kp.id)
           \* the participant being repaired may itself be in the helper set
           \* only by mistake; then a denominator vanishes (cannot happen: x # i)
       IN Ok([deltas |-> [h \in H |->
                 IF h = hs[Len(hs)] THEN Sub(Mul(zeta, kp.share), SumSeq(draws))
                 ELSE draws[CHOOSE k \in 1..Len(hs) : hs[k] = h]]])

RepairPart2(deltas) == Ok([sigma |-> SumSeq(deltas)])

RepairPart3(sigmas, id, pkp) ==
  IF pkp.min = -1 THEN Err("InvalidMinSigners")
  ELSE LET s == SumSeq(sigmas) IN Ok([id |-> id, share |-> s, vs |-> s, vk |-> pkp.vk, min |-> pkp.min])

-----------------------------------------------------------------------------
(* frost-rerandomized *)

\* Randomizer::regenerate_from_seed_and_commitments / RandomizedParams:
\* alpha = HR(seed || encode(commitments)); params = (alpha, alpha*G, vk + alpha*G)
RandParams(ro, vk, seed, comms) ==
  IF ListHasIdent(comms) THEN Err("GroupError")
  ELSE LET k == KeyHR(seed, comms) IN
    IF k \notin DOMAIN ro THEN Need(k, DomHR)
    ELSE Ok([alpha |-> ro[k], alphaG |-> ro[k], vk2 |-> Add(vk, ro[k])])

FixedParams(vk, alpha) == [alpha |-> alpha, alphaG |-> alpha, vk2 |-> Add(vk, alpha)]

RandomizeKp(kp, rp)   == [kp EXCEPT !.share = Add(@, rp.alpha), !.vs = Add(@, rp.alphaG), !.vk = rp.vk2]
RandomizePkp(pkp, rp) == [pkp EXCEPT !.vs = [i \in DOMAIN pkp.vs |-> Add(pkp.vs[i], rp.alphaG)], !.vk = rp.vk2]

\* sign_with_randomizer_seed: parameters regenerated from the key package's
\* group key, the seed and the *package's* commitments
SignRand(ro, pkg, non, kp, seed) ==
  LET rp == RandParams(ro, kp.vk, seed, pkg.comms) IN
  IF Stop(rp) THEN rp ELSE Sign(ro, pkg, non, RandomizeKp(kp, rp))

AggregateRand(ro, pkg, shares, pkp, mode, rp) == Aggregate(ro, pkg, shares, RandomizePkp(pkp, rp), mode)

-----------------------------------------------------------------------------
(* signing_key.rs, batch.rs *)

\* SigningKey::sign (default_sign): k = random_nonzero, R = G*k, z = k + c*s
SingleSign(ro, s, k, msg) ==
  LET k2 == KeyH2(k, s, msg) IN
  IF k2 \notin DOMAIN ro THEN Need(k2, DomH2) ELSE Ok([R |-> k, z |-> Add(k, Mul(ro[k2], s))])

\* batch::Item::new computes the challenge at queue time (identity R or key: GroupError)
RECURSIVE BatchChallenges(_,_,_)
BatchChallenges(ro, items, k) ==
  IF k > Len(items) THEN Ok([c |-> << >>])
  ELSE LET it == items[k] IN
    IF IsIdent(it.sig.R) \/ IsIdent(it.vk) THEN Err("GroupError")
    ELSE LET key == KeyH2(it.sig.R, it.vk, it.msg) IN
      IF key \notin DOMAIN ro THEN Need(key, DomH2)
      ELSE LET rest == BatchChallenges(ro, items, k + 1) IN
           IF Stop(rest) THEN rest ELSE Ok([c |-> <<ro[key]>> \o rest.c])

\* per-item error e_i = z_i - R_i - c_i*vk_i (0 iff the item verifies)
ItemError(it, c) == Sub(Sub(it.sig.z, it.sig.R), Mul(c, it.vk))

\* batch::Verifier::verify: one blinder per item, in queue order
BatchVerify(ro, items, blinders) ==
  LET ch == BatchChallenges(ro, items, 1) IN
  IF Stop(ch) THEN ch
  ELSE IF items = << >> THEN Err("InvalidSignature")
  ELSE IF SumSeq([k \in DOMAIN items |-> Mul(blinders[k], ItemError(items[k], ch.c[k]))]) = 0
       THEN Ok([singles |-> [k \in DOMAIN items |-> ItemError(items[k], ch.c[k]) = 0]])
       ELSE [ok |-> FALSE, err |-> "InvalidSignature", culprits |-> << >>,
             singles |-> [k \in DOMAIN items |-> ItemError(items[k], ch.c[k]) = 0]]
=============================================================================
