---------------------------- MODULE FrostField ----------------------------
(* Arithmetic of the toy field Z_q and of the order-q group in discrete-log  *)
(* representation.  A group element is represented by its discrete log to   *)
(* the generator: G*x == x, element addition == Add, identity == 0.         *)
(* Mirrors: frost-core/src/traits.rs (Field/Group), lib.rs:295-353          *)
(* (compute_lagrange_coefficient), keys.rs:587-623 (evaluate_polynomial,    *)
(* evaluate_vss).                                                           *)
EXTENDS Naturals, Integers, Sequences, FiniteSets, SequencesExt, FiniteSetsExt

CONSTANTS Q     \* prime group order

Zq   == 0..(Q-1)
ZqNZ == 1..(Q-1)

Red(a)   == a % Q
Add(a,b) == (a + b) % Q
Neg(a)   == (Q - (a % Q)) % Q
Sub(a,b) == (a + Neg(b)) % Q
Mul(a,b) == (a * b) % Q

\* square-and-multiply, so that the same definitions serve the exhaustive toy
\* fields (q <= 13) and the witness field (q ~ 2*10^4, trace validation)
RECURSIVE Pow(_,_)
Pow(a,k) == IF k = 0 THEN 1 % Q
            ELSE LET h == Pow(a, k \div 2) IN
                 IF k % 2 = 0 THEN Mul(h, h) ELSE Mul(Mul(h, h), a)

\* multiplicative inverse (a # 0) by Fermat
Inv(a) == Pow(a, Q - 2)

\* sums and products over sequences
RECURSIVE SumSeq(_)
SumSeq(s) == IF s = <<>> THEN 0 ELSE Add(Head(s), SumSeq(Tail(s)))
RECURSIVE ProdSeq(_)
ProdSeq(s) == IF s = <<>> THEN 1 % Q ELSE Mul(Head(s), ProdSeq(Tail(s)))

\* ascending sequence of a finite set of naturals
Sorted(S) == SetToSortSeq(S, <)

SumOver(S, F(_))  == SumSeq([k \in 1..Cardinality(S) |-> F(Sorted(S)[k])])
ProdOver(S, F(_)) == ProdSeq([k \in 1..Cardinality(S) |-> F(Sorted(S)[k])])

\* polynomial with coefficient sequence c (constant term first) at x.
\* The empty polynomial evaluates to 0 (the code panics there; unreachable).
RECURSIVE EvalFrom(_,_,_)
EvalFrom(c, x, k) == IF k > Len(c) THEN 0 ELSE Add(c[k], Mul(x, EvalFrom(c, x, k+1)))
EvalPoly(c, x) == EvalFrom(c, x, 1)

\* Lagrange basis value for x_i over the set xs, at 0 (x = -1 encodes None)
\* or at x.  Precondition: i \in xs (the code returns UnknownIdentifier
\* otherwise, which callers model before calling this).
LagNum(xs, x, i) == IF x = -1 THEN ProdOver(xs \ {i}, LAMBDA j : j)
                              ELSE ProdOver(xs \ {i}, LAMBDA j : Sub(x, j))
LagDen(xs, x, i) == IF x = -1 THEN ProdOver(xs \ {i}, LAMBDA j : Sub(j, i))
                              ELSE ProdOver(xs \ {i}, LAMBDA j : Sub(i, j))
Lagrange(xs, x, i) == Mul(LagNum(xs, x, i), Inv(LagDen(xs, x, i)))

\* interpolate the value at 0 of the polynomial through (i, y[i]), i \in xs
Interp0(xs, y) == SumOver(xs, LAMBDA i : Mul(Lagrange(xs, -1, i), y[i]))

\* all sequences of length k over S
SeqsOf(S, k) == [1..k -> S]
=============================================================================
