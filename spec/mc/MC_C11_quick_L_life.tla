---- MODULE MC_C11_quick_L_life ----
EXTENDS Life
MC_DomH1 == {5}
MC_DomH2 == {3}
MC_DomH3 == {2,5}
MC_DomH4 == {7}
MC_DomH5 == {9}
MC_DomHDKG == {4}
MC_DomHR == {6}
MC_DomHID == {1}
MC_Shapes == {<<4,3>>}
MC_IdSets == {{2,5,7,10}}
MC_Inits == {"dealer","dkg"}
MC_OpSeqs == {<<"refresh_dealer","repair","sign">>, <<"refresh_dkg","repair","rrsign">>, <<"repair","repair","refresh_dkg","repair","sign">>}
MC_Vals == {3}
MC_RandChoices == {1}
MC_Msg == <<104,105>>
MC_EMIT == TRUE

====
