---- MODULE MC_C16_thorough_B_t5 ----
EXTENDS C16
MC_DomH1 == {1}
MC_DomH2 == {1}
MC_DomH3 == {1}
MC_DomH4 == {7}
MC_DomH5 == {9}
MC_DomHDKG == {4}
MC_DomHR == {1}
MC_DomHID == {1}
MC_Probes == {"dealer","dkg1","rdkg1"}
MC_Vals == {0,1,4,10}
MC_NZVals == {7}
MC_MaxZeros == 1
MC_Shapes == {<<5,5>>, <<6,4>>}
MC_EMIT == TRUE

====
