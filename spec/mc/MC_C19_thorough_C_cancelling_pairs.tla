---- MODULE MC_C19_thorough_C_cancelling_pairs ----
EXTENDS C19
MC_DomH1 == {1}
MC_DomH2 == {2}
MC_DomH3 == {1}
MC_DomH4 == {7}
MC_DomH5 == {9}
MC_DomHDKG == {1}
MC_DomHR == {1}
MC_DomHID == {1}
MC_Keys == {2}
MC_NonceChoices == {3}
MC_MaxItems == 2
MC_Kinds == {"z","R"}
MC_Blinders == 0..6
MC_BigPlans == {}
MC_EMIT == TRUE

====
