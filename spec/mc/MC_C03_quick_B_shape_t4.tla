---- MODULE MC_C03_quick_B_shape_t4 ----
EXTENDS C03
MC_DomH1 == {3}
MC_DomH2 == {3}
MC_DomH3 == {4}
MC_DomH4 == {7}
MC_DomH5 == {9}
MC_DomHDKG == {1}
MC_DomHR == {1}
MC_DomHID == {1}
MC_Shapes == {<<4,4>>, <<5,4>>}
MC_IdSets == {{1,2,3,4}, {2,5,7,10}, {1,3,6,8,10}}
MC_KeyChoices == {7}
MC_CoeffChoices == {3,0}
MC_RandChoices == {1}
MC_Msg == <<104,105>>
MC_LiePkp == {"lower","none"}
MC_EMIT == TRUE

====
