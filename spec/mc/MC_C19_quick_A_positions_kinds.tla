---- MODULE MC_C19_quick_A_positions_kinds ----
EXTENDS C19
MC_DomH1 == {1}
MC_DomH2 == {2}
MC_DomH3 == {1}
MC_DomH4 == {7}
MC_DomH5 == {9}
MC_DomHDKG == {1}
MC_DomHR == {1}
MC_DomHID == {1}
MC_Keys == {2,3}
MC_NonceChoices == {3}
MC_MaxItems == 3
MC_Kinds == {"ok","z","R","msg","key"}
MC_Blinders == {1,4}
MC_BigPlans == {}
MC_EMIT == TRUE

====
