---- MODULE MC_C15_thorough_S_batch_sizes ----
EXTENDS C15
MC_DomH1 == {1}
MC_DomH2 == {1}
MC_DomH3 == {77}
MC_DomH4 == {7}
MC_DomH5 == {9}
MC_DomHDKG == {1}
MC_DomHR == {1}
MC_DomHID == {1}
MC_ShareChoices == {200}
MC_RandChoices == {1}
MC_Calls == {<<k>> : k \in (5..70) \cup {127,128,129,200,254,255}}
MC_EMIT == TRUE

====
