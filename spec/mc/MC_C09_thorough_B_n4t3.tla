---- MODULE MC_C09_thorough_B_n4t3 ----
EXTENDS C09
MC_DomH1 == {1}
MC_DomH2 == {1}
MC_DomH3 == {1}
MC_DomH4 == {7}
MC_DomH5 == {9}
MC_DomHDKG == {4}
MC_DomHR == {1}
MC_DomHID == {1}
MC_Shape == <<4,3>>
MC_TB == 3
MC_SameR1 == FALSE
MC_Ids == {1,2,3,4}
MC_Who == {4}
MC_PolyA == (1 :> <<3,5,1>> @@ 2 :> <<1,7,0>> @@ 3 :> <<6,2,9>> @@ 4 :> <<2,2,2>>)
MC_PolyB == (1 :> <<4,1,1>> @@ 2 :> <<9,2,3>> @@ 3 :> <<5,6,0>> @@ 4 :> <<8,1,5>>)
MC_KA == 2
MC_KB == 3
MC_EMIT == TRUE

====
