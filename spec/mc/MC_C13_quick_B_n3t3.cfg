CONSTANTS
 Q = 11
 P = 23
 GEN = 4
 DomH1 <- MC_DomH1
 DomH2 <- MC_DomH2
 DomH3 <- MC_DomH3
 DomH4 <- MC_DomH4
 DomH5 <- MC_DomH5
 DomHDKG <- MC_DomHDKG
 DomHR <- MC_DomHR
 DomHID <- MC_DomHID
 Shape <- MC_Shape
 Ids <- MC_Ids
 Polys <- MC_Polys
 RPolys <- MC_RPolys
 DCoeffs <- MC_DCoeffs
 KNonce <- MC_KNonce
 Crash <- MC_Crash
 Forms <- MC_Forms
 Msg <- MC_Msg
 EMIT <- MC_EMIT
INIT Init
NEXT Next
CHECK_DEADLOCK FALSE
INVARIANTS InvEncodable InvCompletes Emit
