---- MODULE MC_C02_quick_C01_D_shape_t4 ----
EXTENDS C01
MC_DomH1 == {3,8}
MC_DomH2 == {5}
MC_DomH3 == {4,9}
MC_DomH4 == {7}
MC_DomH5 == {9}
MC_DomHDKG == {1}
MC_DomHR == {1}
MC_DomHID == {1}
MC_Shapes == {<<4,4>>, <<5,4>>}
MC_IdSets == {{1,2,3,4}, {2,5,7,10}, {1,2,3,4,5}, {1,3,6,8,10}}
MC_KeyChoices == {7}
MC_CoeffChoices == {3}
MC_RandChoices == {1}
MC_Msgs == {[k \in 1..70 |-> k]}
MC_MaxExtra == 1
MC_ListOrders == {"asc","desc"}
MC_EMIT == TRUE
MC_BatchAtEnd == FALSE
MC_CoordPkps == {"current"}

====
