CONSTANTS
 Q = 257
 P = 1543
 GEN = 64
 DomH1 <- MC_DomH1
 DomH2 <- MC_DomH2
 DomH3 <- MC_DomH3
 DomH4 <- MC_DomH4
 DomH5 <- MC_DomH5
 DomHDKG <- MC_DomHDKG
 DomHR <- MC_DomHR
 DomHID <- MC_DomHID
 Sizes <- MC_Sizes
 Forms <- MC_Forms
 Key <- MC_Key
 Coeff <- MC_Coeff
 NonceK <- MC_NonceK
 Msg <- MC_Msg
 EMIT <- MC_EMIT
INIT Init
NEXT Next
CHECK_DEADLOCK FALSE
INVARIANTS InvCompletes InvRestored Emit
