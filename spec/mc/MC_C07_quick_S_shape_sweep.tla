---- MODULE MC_C07_quick_S_shape_sweep ----
EXTENDS C07
MC_DomH1 == {3}
MC_DomH2 == {5}
MC_DomH3 == {4}
MC_DomH4 == {7}
MC_DomH5 == {9}
MC_DomHDKG == {4}
MC_DomHR == {1}
MC_DomHID == {1}
MC_Shapes == {sh \in (2..8) \X (2..8) : sh[2] <= sh[1]}
MC_IdSets == {1..n : n \in 2..8}
MC_A0Choices == {7}
MC_CoeffChoices == {3}
MC_KChoices == {2}
MC_MaxExtra == 0
MC_RandChoices == {1}
MC_Msg == <<104,105>>
MC_SweepSigners == TRUE
MC_EMIT == TRUE

====
