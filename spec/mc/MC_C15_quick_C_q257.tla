---- MODULE MC_C15_quick_C_q257 ----
EXTENDS C15
MC_DomH1 == {1}
MC_DomH2 == {1}
MC_DomH3 == {0,256,3}
MC_DomH4 == {7}
MC_DomH5 == {9}
MC_DomHDKG == {1}
MC_DomHR == {1}
MC_DomHID == {1}
MC_ShareChoices == {1,255,256}
MC_RandChoices == {0,255}
MC_Calls == {<<1>>, <<2>>}
MC_EMIT == TRUE

====
