---- MODULE MC_C19_thorough_D_large_batches ----
EXTENDS C19
MC_DomH1 == {1}
MC_DomH2 == {7}
MC_DomH3 == {1}
MC_DomH4 == {7}
MC_DomH5 == {9}
MC_DomHDKG == {1}
MC_DomHR == {1}
MC_DomHID == {1}
MC_Keys == {2}
MC_NonceChoices == {3}
MC_MaxItems == 0
MC_Kinds == {"ok"}
MC_Blinders == {1}
MC_BigPlans == {[n |-> 33, ks |-> [j \in 1..33 |-> 1], kd |-> [j \in 1..33 |-> IF j \in {1} THEN "z" ELSE "ok"], ds |-> [j \in 1..33 |-> IF j \in {} THEN -1 ELSE 1]], [n |-> 40, ks |-> [j \in 1..40 |-> 1], kd |-> [j \in 1..40 |-> IF j \in {20} THEN "z" ELSE "ok"], ds |-> [j \in 1..40 |-> IF j \in {} THEN -1 ELSE 1]], [n |-> 40, ks |-> [j \in 1..40 |-> 1], kd |-> [j \in 1..40 |-> IF j \in {40} THEN "z" ELSE "ok"], ds |-> [j \in 1..40 |-> IF j \in {} THEN -1 ELSE 1]], [n |-> 65, ks |-> [j \in 1..65 |-> 1], kd |-> [j \in 1..65 |-> IF j \in {32} THEN "z" ELSE "ok"], ds |-> [j \in 1..65 |-> IF j \in {} THEN -1 ELSE 1]], [n |-> 65, ks |-> [j \in 1..65 |-> 1], kd |-> [j \in 1..65 |-> IF j \in {33} THEN "z" ELSE "ok"], ds |-> [j \in 1..65 |-> IF j \in {} THEN -1 ELSE 1]], [n |-> 64, ks |-> [j \in 1..64 |-> 1], kd |-> [j \in 1..64 |-> IF j \in {} THEN "z" ELSE "ok"], ds |-> [j \in 1..64 |-> IF j \in {} THEN -1 ELSE 1]], [n |-> 33, ks |-> [j \in 1..33 |-> 1], kd |-> [j \in 1..33 |-> IF j \in {1, 33} THEN "z" ELSE "ok"], ds |-> [j \in 1..33 |-> IF j \in {} THEN -1 ELSE 1]], [n |-> 65, ks |-> [j \in 1..65 |-> 1], kd |-> [j \in 1..65 |-> IF j \in {1, 65} THEN "z" ELSE "ok"], ds |-> [j \in 1..65 |-> IF j \in {65} THEN -1 ELSE 1]], [n |-> 66, ks |-> [j \in 1..66 |-> 1], kd |-> [j \in 1..66 |-> IF j \in {2, 66} THEN "z" ELSE "ok"], ds |-> [j \in 1..66 |-> IF j \in {66} THEN -1 ELSE 1]], [n |-> 40, ks |-> [j \in 1..40 |-> 1], kd |-> [j \in 1..40 |-> IF j \in {3, 35} THEN "z" ELSE "ok"], ds |-> [j \in 1..40 |-> IF j \in {35} THEN -1 ELSE 1]], [n |-> 34, ks |-> [j \in 1..34 |-> 1], kd |-> [j \in 1..34 |-> IF j \in {17, 18} THEN "z" ELSE "ok"], ds |-> [j \in 1..34 |-> IF j \in {18} THEN -1 ELSE 1]], [n |-> 65, ks |-> [j \in 1..65 |-> 1], kd |-> [j \in 1..65 |-> IF j \in {1} THEN "z" ELSE "ok"], ds |-> [j \in 1..65 |-> IF j \in {} THEN -1 ELSE 1]], [n |-> 65, ks |-> [j \in 1..65 |-> 1], kd |-> [j \in 1..65 |-> IF j \in {2} THEN "z" ELSE "ok"], ds |-> [j \in 1..65 |-> IF j \in {} THEN -1 ELSE 1]], [n |-> 65, ks |-> [j \in 1..65 |-> 1], kd |-> [j \in 1..65 |-> IF j \in {31} THEN "z" ELSE "ok"], ds |-> [j \in 1..65 |-> IF j \in {} THEN -1 ELSE 1]], [n |-> 65, ks |-> [j \in 1..65 |-> 1], kd |-> [j \in 1..65 |-> IF j \in {34} THEN "z" ELSE "ok"], ds |-> [j \in 1..65 |-> IF j \in {} THEN -1 ELSE 1]], [n |-> 65, ks |-> [j \in 1..65 |-> 1], kd |-> [j \in 1..65 |-> IF j \in {64} THEN "z" ELSE "ok"], ds |-> [j \in 1..65 |-> IF j \in {} THEN -1 ELSE 1]], [n |-> 65, ks |-> [j \in 1..65 |-> 1], kd |-> [j \in 1..65 |-> IF j \in {65} THEN "z" ELSE "ok"], ds |-> [j \in 1..65 |-> IF j \in {} THEN -1 ELSE 1]], [n |-> 130, ks |-> [j \in 1..130 |-> 1], kd |-> [j \in 1..130 |-> IF j \in {1, 129} THEN "z" ELSE "ok"], ds |-> [j \in 1..130 |-> IF j \in {129} THEN -1 ELSE 1]], [n |-> 130, ks |-> [j \in 1..130 |-> 1], kd |-> [j \in 1..130 |-> IF j \in {2, 66} THEN "z" ELSE "ok"], ds |-> [j \in 1..130 |-> IF j \in {66} THEN -1 ELSE 1]], [n |-> 129, ks |-> [j \in 1..129 |-> 1], kd |-> [j \in 1..129 |-> IF j \in {64, 128} THEN "z" ELSE "ok"], ds |-> [j \in 1..129 |-> IF j \in {128} THEN -1 ELSE 1]], [n |-> 100, ks |-> [j \in 1..100 |-> 1], kd |-> [j \in 1..100 |-> IF j \in {10, 26} THEN "z" ELSE "ok"], ds |-> [j \in 1..100 |-> IF j \in {26} THEN -1 ELSE 1]]}
MC_EMIT == TRUE

====
