---- MODULE MC_C17_quick_A_faults ----
EXTENDS C17
MC_DomH1 == {1,5}
MC_DomH2 == {3,0}
MC_DomH3 == {2,5}
MC_DomH4 == {7}
MC_DomH5 == {9}
MC_DomHDKG == {1}
MC_DomHR == {2,4}
MC_DomHID == {1}
MC_Shapes == {<<3,2>>}
MC_IdSets == {{2,3,5}}
MC_MaxExtra == 1
MC_SeedChoices == {5,300}
MC_Faults == {"none","seed","comm","share","share2","fixed","few"}
MC_SeedFaults == {"last","append","append0","trunc","empty"}
MC_FixedAlphas == {0,1,4}
MC_KeyChoices == {3}
MC_CoeffChoices == {5}
MC_RandChoices == {1}
MC_Msg == <<104,105>>
MC_Modes == <<"Disabled", "FirstCheater", "AllCheaters">>
MC_EMIT == TRUE

====
