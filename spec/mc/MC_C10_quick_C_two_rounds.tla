---- MODULE MC_C10_quick_C_two_rounds ----
EXTENDS C10
MC_DomH1 == {3}
MC_DomH2 == {3}
MC_DomH3 == {4}
MC_DomH4 == {7}
MC_DomH5 == {9}
MC_DomHDKG == {4}
MC_DomHR == {1}
MC_DomHID == {1}
MC_Shapes == {<<4,3>>}
MC_IdSets == {{1,2,3,4}, {2,5,7,10}}
MC_KeyChoices == {7}
MC_CoeffChoices == {3}
MC_Procs == {"dealer","dkg"}
MC_Scenarios == {"ok","onelen"}
MC_RCoeffChoices == {2}
MC_Rounds == 2
MC_MaxExtra == 1
MC_RandChoices == {1}
MC_Msg == <<104,105>>
MC_KChoices == {2}
MC_Sweep == FALSE
MC_EMIT == TRUE

====
