---- MODULE MC_C06_thorough_D_q13_t3 ----
EXTENDS C06
MC_DomH1 == {1}
MC_DomH2 == {1}
MC_DomH3 == {1}
MC_DomH4 == {7}
MC_DomH5 == {9}
MC_DomHDKG == {1}
MC_DomHR == {1}
MC_DomHID == {1}
MC_Shapes == {<<4,3>>}
MC_IdLists == {<<1,2,3,4>>, <<12,5,7,2>>}
MC_UseDefault == FALSE
MC_KeyChoices == {1,6,12}
MC_CoeffChoices == 0..12
MC_Probes == {"tamper","recon"}
MC_Deltas == {1,5,12}
MC_EMIT == TRUE

====
