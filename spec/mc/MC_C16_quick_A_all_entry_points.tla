---- MODULE MC_C16_quick_A_all_entry_points ----
EXTENDS C16
MC_DomH1 == {1}
MC_DomH2 == {2}
MC_DomH3 == {3}
MC_DomH4 == {7}
MC_DomH5 == {9}
MC_DomHDKG == {4}
MC_DomHR == {3}
MC_DomHID == {1}
MC_Probes == {"dealer","dkg1","rdkg1","single","repair","refresh","rr","batch"}
MC_Vals == 0..6
MC_NZVals == {2,5}
MC_MaxZeros == 2
MC_Shapes == {<<2,2>>, <<3,2>>, <<3,3>>, <<4,4>>, <<1,1>>, <<2,3>>}
MC_EMIT == TRUE

====
