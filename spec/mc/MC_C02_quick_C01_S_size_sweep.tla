---- MODULE MC_C02_quick_C01_S_size_sweep ----
EXTENDS C01
MC_DomH1 == {5}
MC_DomH2 == {100}
MC_DomH3 == {77}
MC_DomH4 == {7}
MC_DomH5 == {9}
MC_DomHDKG == {1}
MC_DomHR == {1}
MC_DomHID == {1}
MC_Shapes == {<<n,n>> : n \in (2..12) \cup {16,17,31,32,33,63,64,65}}
MC_IdSets == {1..n : n \in (2..12) \cup {16,17,31,32,33,63,64,65}}
MC_KeyChoices == {200}
MC_CoeffChoices == {3}
MC_RandChoices == {1}
MC_Msgs == {<<104,105>>}
MC_MaxExtra == 0
MC_EMIT == TRUE
MC_ListOrders == {"asc"}
MC_BatchAtEnd == FALSE
MC_CoordPkps == {"current"}

====
