---- MODULE MC_C09_thorough_A_n3t2 ----
EXTENDS C09
MC_DomH1 == {1}
MC_DomH2 == {1}
MC_DomH3 == {1}
MC_DomH4 == {7}
MC_DomH5 == {9}
MC_DomHDKG == {4}
MC_DomHR == {1}
MC_DomHID == {1}
MC_Shape == <<3,2>>
MC_TB == 2
MC_SameR1 == FALSE
MC_Ids == {2, 3, 5}
MC_Who == {2, 3, 5}
MC_PolyA == (2 :> <<3,5>> @@ 3 :> <<1,0>> @@ 5 :> <<6,2>>)
MC_PolyB == (2 :> <<4,1>> @@ 3 :> <<2,2>> @@ 5 :> <<5,6>>)
MC_KA == 2
MC_KB == 3
MC_EMIT == TRUE

====
