---- MODULE MC_C04_thorough_S_size_sweep ----
EXTENDS C04
MC_DomH1 == {5}
MC_DomH2 == {100}
MC_DomH3 == {77}
MC_DomH4 == {7}
MC_DomH5 == {9}
MC_DomHDKG == {1}
MC_DomHR == {1}
MC_DomHID == {1}
MC_Shapes == {<<n,n>> : n \in 2..16}
MC_IdSets == {1..n : n \in 2..16}
MC_MaxExtra == 0
MC_Deltas == {1,256}
MC_Kinds == {"add"}
MC_KeyChoices == {200}
MC_CoeffChoices == {5}
MC_RandChoices == {1}
MC_MsgA == <<104,105>>
MC_MsgB == <<>>
MC_Modes == <<"Disabled", "FirstCheater", "AllCheaters">>
MC_MaxCheaters == 2
MC_CoordPkps == {"current"}
MC_EMIT == TRUE

====
