CONSTANTS
 Q = 11
 P = 23
 GEN = 4
 DomH1 <- MC_DomH1
 DomH2 <- MC_DomH2
 DomH3 <- MC_DomH3
 DomH4 <- MC_DomH4
 DomH5 <- MC_DomH5
 DomHDKG <- MC_DomHDKG
 DomHR <- MC_DomHR
 DomHID <- MC_DomHID
 Shapes <- MC_Shapes
 IdSets <- MC_IdSets
 Inits <- MC_Inits
 OpSeqs <- MC_OpSeqs
 Vals <- MC_Vals
 RandChoices <- MC_RandChoices
 Msg <- MC_Msg
 EMIT <- MC_EMIT
INIT Init
NEXT Next
CHECK_DEADLOCK FALSE
INVARIANTS InvLinked InvShares InvNeverFails InvVerify Emit
