CONSTANTS
 Q = 251
 P = 503
 GEN = 4
 DomH1 <- MC_DomH1
 DomH2 <- MC_DomH2
 DomH3 <- MC_DomH3
 DomH4 <- MC_DomH4
 DomH5 <- MC_DomH5
 DomHDKG <- MC_DomHDKG
 DomHR <- MC_DomHR
 DomHID <- MC_DomHID
 Keys <- MC_Keys
 NonceChoices <- MC_NonceChoices
 MaxItems <- MC_MaxItems
 Kinds <- MC_Kinds
 Blinders <- MC_Blinders
 BigPlans <- MC_BigPlans
 EMIT <- MC_EMIT
INIT Init
NEXT Next
CHECK_DEADLOCK FALSE
INVARIANTS InvAccept InvSingles InvSoundness Emit
