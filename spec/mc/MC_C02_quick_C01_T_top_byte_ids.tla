---- MODULE MC_C02_quick_C01_T_top_byte_ids ----
EXTENDS C01
MC_DomH1 == {5}
MC_DomH2 == {100}
MC_DomH3 == {77,9000}
MC_DomH4 == {7}
MC_DomH5 == {9}
MC_DomHDKG == {1}
MC_DomHR == {1}
MC_DomHID == {1}
MC_Shapes == {<<3,2>>, <<4,3>>}
MC_IdSets == {{1,257,2}, {1,257,513,258}, {255,511,256}}
MC_KeyChoices == {20000}
MC_CoeffChoices == {3}
MC_RandChoices == {1}
MC_Msgs == {<<104,105>>}
MC_MaxExtra == 1
MC_EMIT == TRUE
MC_ListOrders == {"asc"}
MC_BatchAtEnd == FALSE
MC_CoordPkps == {"current"}

====
