---- MODULE MC_C17_quick_C_shape_s4 ----
EXTENDS C17
MC_DomH1 == {3}
MC_DomH2 == {5}
MC_DomH3 == {4}
MC_DomH4 == {7}
MC_DomH5 == {9}
MC_DomHDKG == {1}
MC_DomHR == {6}
MC_DomHID == {1}
MC_Shapes == {<<4,3>>}
MC_IdSets == {{1,2,3,4}, {2,5,7,10}}
MC_MaxExtra == 1
MC_SeedChoices == {9}
MC_Faults == {"none","seed","comm","share","share2","few"}
MC_SeedFaults == {"last","trunc"}
MC_FixedAlphas == {1}
MC_KeyChoices == {7}
MC_CoeffChoices == {3}
MC_RandChoices == {1}
MC_Msg == <<104,105>>
MC_Modes == <<"Disabled", "FirstCheater", "AllCheaters">>
MC_EMIT == TRUE

====
