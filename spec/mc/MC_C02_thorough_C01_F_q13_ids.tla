---- MODULE MC_C02_thorough_C01_F_q13_ids ----
EXTENDS C01
MC_DomH1 == {6}
MC_DomH2 == {4}
MC_DomH3 == {2,5}
MC_DomH4 == {7}
MC_DomH5 == {9}
MC_DomHDKG == {1}
MC_DomHR == {1}
MC_DomHID == {1}
MC_Shapes == {<<3,2>>, <<4,3>>}
MC_IdSets == {S \in SUBSET ({1,2,5,11,12}) : Cardinality(S) \in {3, 4}}
MC_KeyChoices == {5}
MC_CoeffChoices == {0,9}
MC_RandChoices == {1}
MC_Msgs == {<<1>>}
MC_MaxExtra == 1
MC_EMIT == TRUE
MC_ListOrders == {"asc"}
MC_BatchAtEnd == FALSE
MC_CoordPkps == {"current"}

====
