---- MODULE MC_C08_quick_S_shape_sweep ----
EXTENDS C08
MC_DomH1 == {1}
MC_DomH2 == {1}
MC_DomH3 == {1}
MC_DomH4 == {7}
MC_DomH5 == {9}
MC_DomHDKG == {4}
MC_DomHR == {1}
MC_DomHID == {1}
MC_Shapes == {<<n,t>> : n \in 2..8, t \in 2..8} \cap {sh \in (2..8) \X (2..8) : sh[2] <= sh[1]}
MC_IdSets == {1..n : n \in 2..8}
MC_A0Choices == {7}
MC_CoeffChoices == {3}
MC_KChoices == {2}
MC_Deltas == {1}
MC_Faults == {"none","r1field","r2delta","bothmissing"}
MC_PairMode == "ends"
MC_EMIT == TRUE

====
