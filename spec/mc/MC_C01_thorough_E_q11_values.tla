---- MODULE MC_C01_thorough_E_q11_values ----
EXTENDS C01
MC_DomH1 == {1,5}
MC_DomH2 == {3,10}
MC_DomH3 == {0,2,7}
MC_DomH4 == {7}
MC_DomH5 == {9}
MC_DomHDKG == {1}
MC_DomHR == {1}
MC_DomHID == {1}
MC_Shapes == {<<3,2>>, <<3,3>>}
MC_IdSets == {{1,2,3}, {4,9,10}}
MC_KeyChoices == 1..10
MC_CoeffChoices == 0..10
MC_RandChoices == {1}
MC_Msgs == {<<>>}
MC_MaxExtra == 1
MC_EMIT == TRUE
MC_ListOrders == {"asc"}
MC_BatchAtEnd == FALSE
MC_CoordPkps == {"current"}

====
