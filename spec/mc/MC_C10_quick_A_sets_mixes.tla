---- MODULE MC_C10_quick_A_sets_mixes ----
EXTENDS C10
MC_DomH1 == {1,5}
MC_DomH2 == {3}
MC_DomH3 == {2,5}
MC_DomH4 == {7}
MC_DomH5 == {9}
MC_DomHDKG == {4}
MC_DomHR == {1}
MC_DomHID == {1}
MC_Shapes == {<<3,2>>}
MC_IdSets == {{2,3,5}}
MC_KeyChoices == {3}
MC_CoeffChoices == {5}
MC_Procs == {"dealer","dkg"}
MC_Scenarios == {"ok","small","unknown","tchange","nonzero","onelen","tchange_legacy"}
MC_RCoeffChoices == {1,4}
MC_Rounds == 1
MC_MaxExtra == 1
MC_RandChoices == {1}
MC_Msg == <<104,105>>
MC_KChoices == {2}
MC_Sweep == FALSE
MC_EMIT == TRUE

====
