CONSTANTS
 Q = 7
 P = 29
 GEN = 16
 DomH1 <- MC_DomH1
 DomH2 <- MC_DomH2
 DomH3 <- MC_DomH3
 DomH4 <- MC_DomH4
 DomH5 <- MC_DomH5
 DomHDKG <- MC_DomHDKG
 DomHR <- MC_DomHR
 DomHID <- MC_DomHID
 Shapes <- MC_Shapes
 IdSets <- MC_IdSets
 MaxExtra <- MC_MaxExtra
 SeedChoices <- MC_SeedChoices
 Faults <- MC_Faults
 SeedFaults <- MC_SeedFaults
 FixedAlphas <- MC_FixedAlphas
 KeyChoices <- MC_KeyChoices
 CoeffChoices <- MC_CoeffChoices
 RandChoices <- MC_RandChoices
 Msg <- MC_Msg
 Modes <- MC_Modes
 EMIT <- MC_EMIT
INIT Init
NEXT Next
CHECK_DEADLOCK FALSE
INVARIANTS InvRegen InvParams InvHonest InvFaulty InvFaultyShare InvFew Emit
