---- MODULE MC_C04_thorough_A_subsets_kinds ----
EXTENDS C04
MC_DomH1 == {1,5}
MC_DomH2 == {3}
MC_DomH3 == {2,5}
MC_DomH4 == {7}
MC_DomH5 == {9}
MC_DomHDKG == {1}
MC_DomHR == {1}
MC_DomHID == {1}
MC_Shapes == {<<3,2>>}
MC_IdSets == {{2,3,5}}
MC_MaxExtra == 1
MC_Deltas == 1..6
MC_Kinds == {"add","neg","zero","other","sessB","negnonce"}
MC_KeyChoices == {3}
MC_CoeffChoices == {5}
MC_RandChoices == {1}
MC_MsgA == <<104,105>>
MC_MsgB == <<>>
MC_Modes == <<"Disabled", "FirstCheater", "AllCheaters">>
MC_MaxCheaters == 99
MC_CoordPkps == {"current","legacy"}
MC_EMIT == TRUE

====
