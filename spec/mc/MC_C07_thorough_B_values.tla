---- MODULE MC_C07_thorough_B_values ----
EXTENDS C07
MC_DomH1 == {5}
MC_DomH2 == {3}
MC_DomH3 == {2}
MC_DomH4 == {7}
MC_DomH5 == {9}
MC_DomHDKG == {0,4}
MC_DomHR == {1}
MC_DomHID == {1}
MC_Shapes == {<<2,2>>}
MC_IdSets == {{3,5}}
MC_A0Choices == 1..6
MC_CoeffChoices == 0..6
MC_KChoices == {2,6}
MC_MaxExtra == 0
MC_RandChoices == {1}
MC_Msg == <<104,105>>
MC_SweepSigners == FALSE
MC_EMIT == TRUE

====
