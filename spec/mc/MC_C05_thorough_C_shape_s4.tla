---- MODULE MC_C05_thorough_C_shape_s4 ----
EXTENDS C05
MC_DomH1 == {3}
MC_DomH2 == {5}
MC_DomH3 == {4}
MC_DomH4 == {7}
MC_DomH5 == {9}
MC_DomHDKG == {1}
MC_DomHR == {1}
MC_DomHID == {1}
MC_Shapes == {<<4,3>>}
MC_IdSets == {{1,2,3,4}, {2,5,7,10}}
MC_MaxExtra == 1
MC_Probes == {"xsess","mix","msg","comm","drop","add","vk","id","own","ident","relabel"}
MC_KeyChoices == {7}
MC_Key2Choices == {5}
MC_CoeffChoices == {3}
MC_RandChoices == {1}
MC_MsgA == <<104,105>>
MC_MsgB == <<104>>
MC_CommDeltas == {1}
MC_CoordPkps == {"current"}
MC_EMIT == TRUE

====
