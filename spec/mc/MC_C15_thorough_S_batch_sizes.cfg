CONSTANTS
 Q = 257
 P = 1543
 GEN = 64
 DomH1 <- MC_DomH1
 DomH2 <- MC_DomH2
 DomH3 <- MC_DomH3
 DomH4 <- MC_DomH4
 DomH5 <- MC_DomH5
 DomHDKG <- MC_DomHDKG
 DomHR <- MC_DomHR
 DomHID <- MC_DomHID
 ShareChoices <- MC_ShareChoices
 RandChoices <- MC_RandChoices
 Calls <- MC_Calls
 EMIT <- MC_EMIT
INIT Init
NEXT Next
CHECK_DEADLOCK FALSE
INVARIANTS InvDerivation Emit
