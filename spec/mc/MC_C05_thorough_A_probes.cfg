CONSTANTS
 Q = 7
 P = 29
 GEN = 16
 DomH1 <- MC_DomH1
 DomH2 <- MC_DomH2
 DomH3 <- MC_DomH3
 DomH4 <- MC_DomH4
 DomH5 <- MC_DomH5
 DomHDKG <- MC_DomHDKG
 DomHR <- MC_DomHR
 DomHID <- MC_DomHID
 Shapes <- MC_Shapes
 IdSets <- MC_IdSets
 MaxExtra <- MC_MaxExtra
 Probes <- MC_Probes
 KeyChoices <- MC_KeyChoices
 Key2Choices <- MC_Key2Choices
 CoeffChoices <- MC_CoeffChoices
 RandChoices <- MC_RandChoices
 MsgA <- MC_MsgA
 MsgB <- MC_MsgB
 CommDeltas <- MC_CommDeltas
 CoordPkps <- MC_CoordPkps
 EMIT <- MC_EMIT
INIT Init
NEXT Next
CHECK_DEADLOCK FALSE
INVARIANTS InvRefusals InvGenSound InvForeignNeedsCoincidence InvMixCulprits Emit
