---- MODULE MC_C11_thorough_A_sets_values ----
EXTENDS C11
MC_DomH1 == {1,5}
MC_DomH2 == {3}
MC_DomH3 == {2,5}
MC_DomH4 == {7}
MC_DomH5 == {9}
MC_DomHDKG == {1}
MC_DomHR == {1}
MC_DomHID == {1}
MC_Shapes == {<<3,2>>, <<4,2>>}
MC_IdSets == {{2,3,5}, {1,2,4,6}}
MC_KeyChoices == {1,3,6}
MC_CoeffChoices == 0..6
MC_DeltaChoices == {0,4}
MC_NewIds == {1,3,6}
MC_Scenarios == {"ok","bad"}
MC_MaxExtraH == 2
MC_RandChoices == {1}
MC_Msg == <<104,105>>
MC_Sweep == FALSE
MC_EMIT == TRUE

====
