---- MODULE MC_C03_thorough_C_q11_t3 ----
EXTENDS C03
MC_DomH1 == {1,5}
MC_DomH2 == {3}
MC_DomH3 == {2,5}
MC_DomH4 == {7}
MC_DomH5 == {9}
MC_DomHDKG == {1}
MC_DomHR == {1}
MC_DomHID == {1}
MC_Shapes == {<<3,3>>, <<4,3>>}
MC_IdSets == {{1,2,3}, {4,9,10}, {1,2,3,4}}
MC_KeyChoices == {1,5,10}
MC_CoeffChoices == 0..10
MC_RandChoices == {1}
MC_Msg == <<104,105>>
MC_LiePkp == {"lower","none"}
MC_EMIT == TRUE

====
