---- MODULE MC_C05_quick_A_probes ----
EXTENDS C05
MC_DomH1 == {1,5}
MC_DomH2 == {3,4}
MC_DomH3 == {2,5}
MC_DomH4 == {7}
MC_DomH5 == {9}
MC_DomHDKG == {1}
MC_DomHR == {1}
MC_DomHID == {1}
MC_Shapes == {<<3,2>>}
MC_IdSets == {{2,3,5}}
MC_MaxExtra == 0
MC_Probes == {"xsess","mix","msg","comm","drop","add","vk","id","own","ident","relabel"}
MC_KeyChoices == {3}
MC_Key2Choices == {5}
MC_CoeffChoices == {5}
MC_RandChoices == {1}
MC_MsgA == <<104,105>>
MC_MsgB == <<104>>
MC_CommDeltas == {1,3}
MC_CoordPkps == {"current","legacy"}
MC_EMIT == TRUE

====
