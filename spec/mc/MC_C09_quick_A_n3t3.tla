---- MODULE MC_C09_quick_A_n3t3 ----
EXTENDS C09
MC_DomH1 == {1}
MC_DomH2 == {1}
MC_DomH3 == {1}
MC_DomH4 == {7}
MC_DomH5 == {9}
MC_DomHDKG == {4}
MC_DomHR == {1}
MC_DomHID == {1}
MC_Shape == <<3,3>>
MC_TB == 3
MC_SameR1 == FALSE
MC_Ids == {1, 4, 6}
MC_Who == {1, 4, 6}
MC_PolyA == (1 :> <<3,5,1>> @@ 4 :> <<1,0,2>> @@ 6 :> <<6,2,2>>)
MC_PolyB == (1 :> <<4,1,0>> @@ 4 :> <<2,2,6>> @@ 6 :> <<5,6,3>>)
MC_KA == 2
MC_KB == 3
MC_EMIT == TRUE

====
