---- MODULE MC_C06_quick_A_params ----
EXTENDS C06
MC_DomH1 == {1}
MC_DomH2 == {1}
MC_DomH3 == {1}
MC_DomH4 == {7}
MC_DomH5 == {9}
MC_DomHDKG == {1}
MC_DomHR == {1}
MC_DomHID == {1}
MC_Shapes == {<<n,t>> : n \in {0,1,2,3,4,65535}, t \in {0,1,2,3,4,65535}}
MC_IdLists == {<<1,2>>, <<2,5,3>>, <<3,3>>, <<1,2,1>>, <<1,2,3,4>>, <<6,5,4,3>>, <<2,2,3,4>>, <<1>>, << >>}
MC_UseDefault == TRUE
MC_KeyChoices == {3}
MC_CoeffChoices == {2}
MC_Probes == {"recon"}
MC_Deltas == {1}
MC_EMIT == TRUE

====
