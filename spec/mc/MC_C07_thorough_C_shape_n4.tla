---- MODULE MC_C07_thorough_C_shape_n4 ----
EXTENDS C07
MC_DomH1 == {3}
MC_DomH2 == {3}
MC_DomH3 == {4}
MC_DomH4 == {7}
MC_DomH5 == {9}
MC_DomHDKG == {4}
MC_DomHR == {1}
MC_DomHID == {1}
MC_Shapes == {<<4,4>>, <<4,3>>}
MC_IdSets == {{1,2,3,4}, {2,5,7,10}}
MC_A0Choices == {7}
MC_CoeffChoices == {3}
MC_KChoices == {2}
MC_MaxExtra == 1
MC_RandChoices == {1}
MC_Msg == <<104,105>>
MC_SweepSigners == FALSE
MC_EMIT == TRUE

====
