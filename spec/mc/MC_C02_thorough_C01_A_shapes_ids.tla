---- MODULE MC_C02_thorough_C01_A_shapes_ids ----
EXTENDS C01
MC_DomH1 == {1,5}
MC_DomH2 == {0,3}
MC_DomH3 == {2,5}
MC_DomH4 == {7}
MC_DomH5 == {9}
MC_DomHDKG == {1}
MC_DomHR == {1}
MC_DomHID == {1}
MC_Shapes == {<<2,2>>, <<3,2>>, <<3,3>>}
MC_IdSets == {S \in SUBSET (1..6) : Cardinality(S) \in {2, 3}}
MC_KeyChoices == {3}
MC_CoeffChoices == {0,5}
MC_RandChoices == {1,2}
MC_Msgs == {<<104,105>>}
MC_ListOrders == {"asc","rot"}
MC_CoordPkps == {"current","legacy"}
MC_MaxExtra == 1
MC_EMIT == TRUE
MC_BatchAtEnd == FALSE

====
