---- MODULE MC_C08_thorough_A_all_faults ----
EXTENDS C08
MC_DomH1 == {1}
MC_DomH2 == {1}
MC_DomH3 == {1}
MC_DomH4 == {7}
MC_DomH5 == {9}
MC_DomHDKG == {0,4,5}
MC_DomHR == {1}
MC_DomHID == {1}
MC_Shapes == {<<3,2>>}
MC_IdSets == {{2,3,5}}
MC_A0Choices == {3,6}
MC_CoeffChoices == {5,0}
MC_KChoices == {2}
MC_Deltas == 1..6
MC_Faults == {"none","r1field","r1len","r1swap","r1graft","r1own","r1unknown","r1missing","r1surplus","r1late","r2delta","r2route","r2own","r2unknown","r2missing","r2surplus","bothmissing","bothsurplus"}
MC_PairMode == "all"
MC_EMIT == TRUE

====
