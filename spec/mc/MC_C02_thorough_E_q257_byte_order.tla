---- MODULE MC_C02_thorough_E_q257_byte_order ----
EXTENDS C01
MC_DomH1 == {3,256}
MC_DomH2 == {100}
MC_DomH3 == {255,256}
MC_DomH4 == {7}
MC_DomH5 == {9}
MC_DomHDKG == {1}
MC_DomHR == {1}
MC_DomHID == {1}
MC_Shapes == {<<3,2>>, <<3,3>>}
MC_IdSets == {{1,255,256}, {2,256,3}}
MC_KeyChoices == {200}
MC_CoeffChoices == {256}
MC_RandChoices == {1}
MC_Msgs == {<<>>, <<104,105>>}
MC_MaxExtra == 1
MC_EMIT == TRUE
MC_ListOrders == {"asc"}
MC_BatchAtEnd == FALSE
MC_CoordPkps == {"current"}

====
