---- MODULE MC_C15_thorough_B_values ----
EXTENDS C15
MC_DomH1 == {1}
MC_DomH2 == {1}
MC_DomH3 == 0..6
MC_DomH4 == {7}
MC_DomH5 == {9}
MC_DomHDKG == {1}
MC_DomHR == {1}
MC_DomHID == {1}
MC_ShareChoices == 1..6
MC_RandChoices == {7}
MC_Calls == {<<1>>, <<2>>}
MC_EMIT == TRUE

====
