---- MODULE MC_C06_thorough_C_shape_t4 ----
EXTENDS C06
MC_DomH1 == {1}
MC_DomH2 == {1}
MC_DomH3 == {1}
MC_DomH4 == {7}
MC_DomH5 == {9}
MC_DomHDKG == {1}
MC_DomHR == {1}
MC_DomHID == {1}
MC_Shapes == {<<4,4>>, <<5,4>>}
MC_IdLists == {<<1,2,3,4>>, <<2,5,7,10>>, <<1,2,3,4,5>>, <<10,3,6,8,1>>}
MC_UseDefault == TRUE
MC_KeyChoices == {7,1}
MC_CoeffChoices == {3,0,10}
MC_Probes == {"tamper","recon"}
MC_Deltas == {1,10}
MC_EMIT == TRUE

====
