CONSTANTS
 Q = 7
 P = 29
 GEN = 16
 DomH1 <- MC_DomH1
 DomH2 <- MC_DomH2
 DomH3 <- MC_DomH3
 DomH4 <- MC_DomH4
 DomH5 <- MC_DomH5
 DomHDKG <- MC_DomHDKG
 DomHR <- MC_DomHR
 DomHID <- MC_DomHID
 Shapes <- MC_Shapes
 IdSets <- MC_IdSets
 KeyChoices <- MC_KeyChoices
 CoeffChoices <- MC_CoeffChoices
 DeltaChoices <- MC_DeltaChoices
 NewIds <- MC_NewIds
 Scenarios <- MC_Scenarios
 MaxExtraH <- MC_MaxExtraH
 RandChoices <- MC_RandChoices
 Msg <- MC_Msg
 Sweep <- MC_Sweep
 EMIT <- MC_EMIT
INIT Init
NEXT Next
CHECK_DEADLOCK FALSE
INVARIANTS InvDeltaSum InvRepairOk InvRepaired InvRefused InvSignOk InvSchnorr Emit
