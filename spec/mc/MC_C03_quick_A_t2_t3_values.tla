---- MODULE MC_C03_quick_A_t2_t3_values ----
EXTENDS C03
MC_DomH1 == {1,5}
MC_DomH2 == {3}
MC_DomH3 == {2,5}
MC_DomH4 == {7}
MC_DomH5 == {9}
MC_DomHDKG == {1}
MC_DomHR == {1}
MC_DomHID == {1}
MC_Shapes == {<<2,2>>, <<3,2>>, <<3,3>>}
MC_IdSets == {{3,5}, {2,3,5}, {1,4,6}}
MC_KeyChoices == 1..6
MC_CoeffChoices == 0..6
MC_RandChoices == {1}
MC_Msg == <<104,105>>
MC_LiePkp == {"lower","none"}
MC_EMIT == TRUE

====
