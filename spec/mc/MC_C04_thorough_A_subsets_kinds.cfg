CONSTANTS
 Q = 7
 P = 29
 GEN = 16
 DomH1 <- MC_DomH1
 DomH2 <- MC_DomH2
 DomH3 <- MC_DomH3
 DomH4 <- MC_DomH4
 DomH5 <- MC_DomH5
 DomHDKG <- MC_DomHDKG
 DomHR <- MC_DomHR
 DomHID <- MC_DomHID
 Shapes <- MC_Shapes
 IdSets <- MC_IdSets
 MaxExtra <- MC_MaxExtra
 Deltas <- MC_Deltas
 Kinds <- MC_Kinds
 KeyChoices <- MC_KeyChoices
 CoeffChoices <- MC_CoeffChoices
 RandChoices <- MC_RandChoices
 MsgA <- MC_MsgA
 MsgB <- MC_MsgB
 Modes <- MC_Modes
 MaxCheaters <- MC_MaxCheaters
 CoordPkps <- MC_CoordPkps
 EMIT <- MC_EMIT
INIT Init
NEXT Next
CHECK_DEADLOCK FALSE
INVARIANTS InvAggregate InvVerifyShare InvReleased Emit
