CONSTANTS
 Q = 257
 P = 1543
 GEN = 64
 DomH1 <- MC_DomH1
 DomH2 <- MC_DomH2
 DomH3 <- MC_DomH3
 DomH4 <- MC_DomH4
 DomH5 <- MC_DomH5
 DomHDKG <- MC_DomHDKG
 DomHR <- MC_DomHR
 DomHID <- MC_DomHID
 Shapes <- MC_Shapes
 IdSets <- MC_IdSets
 KeyChoices <- MC_KeyChoices
 CoeffChoices <- MC_CoeffChoices
 RandChoices <- MC_RandChoices
 Msgs <- MC_Msgs
 MaxExtra <- MC_MaxExtra
 EMIT <- MC_EMIT
 ListOrders <- MC_ListOrders
 BatchAtEnd <- MC_BatchAtEnd
 CoordPkps <- MC_CoordPkps
INIT Init
NEXT Next
CHECK_DEADLOCK FALSE
INVARIANTS InvHonestOk InvSchnorr InvKeys Emit
