---- MODULE MC_C11_quick_S_shape_sweep ----
EXTENDS C11
MC_DomH1 == {3}
MC_DomH2 == {5}
MC_DomH3 == {4}
MC_DomH4 == {7}
MC_DomH5 == {9}
MC_DomHDKG == {1}
MC_DomHR == {1}
MC_DomHID == {1}
MC_Shapes == {sh \in (3..9) \X (2..9) : sh[2] < sh[1]}
MC_IdSets == {1..n : n \in 3..9}
MC_KeyChoices == {7}
MC_CoeffChoices == {3}
MC_DeltaChoices == {4}
MC_NewIds == {}
MC_Scenarios == {"ok"}
MC_MaxExtraH == 12
MC_RandChoices == {1}
MC_Msg == <<104,105>>
MC_Sweep == TRUE
MC_EMIT == TRUE

====
