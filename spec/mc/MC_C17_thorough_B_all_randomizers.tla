---- MODULE MC_C17_thorough_B_all_randomizers ----
EXTENDS C17
MC_DomH1 == {1,5}
MC_DomH2 == 0..6
MC_DomH3 == {2,5}
MC_DomH4 == {7}
MC_DomH5 == {9}
MC_DomHDKG == {1}
MC_DomHR == 0..6
MC_DomHID == {1}
MC_Shapes == {<<2,2>>}
MC_IdSets == {{3,5}}
MC_MaxExtra == 0
MC_SeedChoices == {5}
MC_Faults == {"none","seed","fixed"}
MC_SeedFaults == {"last","append"}
MC_FixedAlphas == 0..6
MC_KeyChoices == {3}
MC_CoeffChoices == {5}
MC_RandChoices == {1}
MC_Msg == <<104,105>>
MC_Modes == <<"Disabled", "FirstCheater", "AllCheaters">>
MC_EMIT == TRUE

====
