---- MODULE MC_C13_quick_A_n3t2 ----
EXTENDS C13
MC_DomH1 == {5}
MC_DomH2 == {3}
MC_DomH3 == {2}
MC_DomH4 == {7}
MC_DomH5 == {9}
MC_DomHDKG == {4}
MC_DomHR == {1}
MC_DomHID == {1}
MC_Shape == <<3,2>>
MC_Ids == {2,3,7}
MC_Polys == (2 :> <<3,5>> @@ 3 :> <<1,4>> @@ 7 :> <<6,2>>)
MC_RPolys == (2 :> <<4>> @@ 3 :> <<9>> @@ 7 :> <<1>>)
MC_DCoeffs == <<8>>
MC_KNonce == 2
MC_Crash == {{b} : b \in {"dkg1","dkg2","dkg3","commit","rdkg1","rdkg2","rdkg3","dealer_share","dealer_kp","repair_delta","repair_sigma","repair_kp","commit2"}} \cup {{}, {"dkg1","dkg2","dkg3","commit","rdkg1","rdkg2","rdkg3","dealer_share","dealer_kp","repair_delta","repair_sigma","repair_kp","commit2"}}
MC_Forms == {"bin","json","parts"}
MC_Msg == <<104,105>>
MC_EMIT == TRUE

====
