---- MODULE MC_C07_quick_A_ids ----
EXTENDS C07
MC_DomH1 == {1,5}
MC_DomH2 == {3}
MC_DomH3 == {2,5}
MC_DomH4 == {7}
MC_DomH5 == {9}
MC_DomHDKG == {4}
MC_DomHR == {1}
MC_DomHID == {1}
MC_Shapes == {<<2,2>>, <<3,2>>, <<3,3>>}
MC_IdSets == {{3,5}, {1,2,3}, {2,5,6}, {1,4,6}}
MC_A0Choices == {3}
MC_CoeffChoices == {0,5}
MC_KChoices == {2}
MC_MaxExtra == 1
MC_RandChoices == {1}
MC_Msg == <<104,105>>
MC_SweepSigners == FALSE
MC_EMIT == TRUE

====
