---- MODULE MC_C04_thorough_C_shape_s4 ----
EXTENDS C04
MC_DomH1 == {3}
MC_DomH2 == {3}
MC_DomH3 == {4}
MC_DomH4 == {7}
MC_DomH5 == {9}
MC_DomHDKG == {1}
MC_DomHR == {1}
MC_DomHID == {1}
MC_Shapes == {<<4,4>>}
MC_IdSets == {{1,2,3,4}, {2,5,7,10}}
MC_MaxExtra == 0
MC_Deltas == {1}
MC_Kinds == {"add","neg","other","negnonce"}
MC_KeyChoices == {7}
MC_CoeffChoices == {3}
MC_RandChoices == {1}
MC_MsgA == <<104,105>>
MC_MsgB == <<>>
MC_Modes == <<"Disabled", "FirstCheater", "AllCheaters">>
MC_MaxCheaters == 99
MC_CoordPkps == {"current"}
MC_EMIT == TRUE

====
