---- MODULE MC_C19_quick_T_threshold_items ----
EXTENDS C01
MC_DomH1 == {5}
MC_DomH2 == {3}
MC_DomH3 == {2,5}
MC_DomH4 == {7}
MC_DomH5 == {9}
MC_DomHDKG == {1}
MC_DomHR == {1}
MC_DomHID == {1}
MC_Shapes == {<<3,2>>}
MC_IdSets == {{2,3,5}}
MC_KeyChoices == {3}
MC_CoeffChoices == {5}
MC_RandChoices == {1}
MC_Msgs == {<<>>, <<104,105>>}
MC_MaxExtra == 1
MC_BatchAtEnd == TRUE
MC_EMIT == TRUE
MC_ListOrders == {"asc"}
MC_CoordPkps == {"current"}

====
