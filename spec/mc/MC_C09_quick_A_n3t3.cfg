CONSTANTS
 Q = 7
 P = 29
 GEN = 16
 DomH1 <- MC_DomH1
 DomH2 <- MC_DomH2
 DomH3 <- MC_DomH3
 DomH4 <- MC_DomH4
 DomH5 <- MC_DomH5
 DomHDKG <- MC_DomHDKG
 DomHR <- MC_DomHR
 DomHID <- MC_DomHID
 Shape <- MC_Shape
 TB <- MC_TB
 SameR1 <- MC_SameR1
 Ids <- MC_Ids
 Who <- MC_Who
 PolyA <- MC_PolyA
 PolyB <- MC_PolyB
 KA <- MC_KA
 KB <- MC_KB
 EMIT <- MC_EMIT
INIT Init
NEXT Next
CHECK_DEADLOCK FALSE
INVARIANTS InvConsistent InvFunctionOfR1 InvAcceptedShares InvGenSound Emit
