---- MODULE MC_C06_quick_B_values_tamper ----
EXTENDS C06
MC_DomH1 == {1}
MC_DomH2 == {1}
MC_DomH3 == {1}
MC_DomH4 == {7}
MC_DomH5 == {9}
MC_DomHDKG == {1}
MC_DomHR == {1}
MC_DomHID == {1}
MC_Shapes == {<<3,2>>, <<3,3>>}
MC_IdLists == {<<2,3,5>>, <<6,1,4>>}
MC_UseDefault == FALSE
MC_KeyChoices == 1..6
MC_CoeffChoices == 0..6
MC_Probes == {"tamper","recon"}
MC_Deltas == 1..6
MC_EMIT == TRUE

====
