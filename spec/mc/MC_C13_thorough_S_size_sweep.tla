---- MODULE MC_C13_thorough_S_size_sweep ----
EXTENDS C13Size
MC_DomH1 == {5}
MC_DomH2 == {100}
MC_DomH3 == {77}
MC_DomH4 == {7}
MC_DomH5 == {9}
MC_DomHDKG == {4}
MC_DomHR == {1}
MC_DomHID == {1}
MC_Sizes == (2..40) \cup {63,64,65,100,128}
MC_Forms == {"bin","json","parts"}
MC_Key == 200
MC_Coeff == 3
MC_NonceK == 7
MC_Msg == <<1>>
MC_EMIT == TRUE

====
