CONSTANTS
 Q = 7
 P = 29
 GEN = 16
 DomH1 <- MC_DomH1
 DomH2 <- MC_DomH2
 DomH3 <- MC_DomH3
 DomH4 <- MC_DomH4
 DomH5 <- MC_DomH5
 DomHDKG <- MC_DomHDKG
 DomHR <- MC_DomHR
 DomHID <- MC_DomHID
 Shapes <- MC_Shapes
 IdSets <- MC_IdSets
 KeyChoices <- MC_KeyChoices
 CoeffChoices <- MC_CoeffChoices
 Procs <- MC_Procs
 Scenarios <- MC_Scenarios
 RCoeffChoices <- MC_RCoeffChoices
 Rounds <- MC_Rounds
 MaxExtra <- MC_MaxExtra
 RandChoices <- MC_RandChoices
 Msg <- MC_Msg
 KChoices <- MC_KChoices
 Sweep <- MC_Sweep
 EMIT <- MC_EMIT
INIT Init
NEXT Next
CHECK_DEADLOCK FALSE
INVARIANTS InvRelinked InvSameSecret InvRefreshOk InvSigning InvSigning2 InvVerify InvRejected Emit
