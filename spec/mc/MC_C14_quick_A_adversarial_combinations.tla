---- MODULE MC_C14_quick_A_adversarial_combinations ----
EXTENDS C14
MC_DomH1 == {5}
MC_DomH2 == {3}
MC_DomH3 == {2,5}
MC_DomH4 == {7}
MC_DomH5 == {9}
MC_DomHDKG == {4}
MC_DomHR == {1}
MC_DomHID == {1}
MC_Probes == {"agg_maps","sign_kp","vshare","dkg_lens","recon","repair","refresh","ss_double"}
MC_EMIT == TRUE

====
