---- MODULE MC_C07_thorough_D_q11_polys ----
EXTENDS C07
MC_DomH1 == {5}
MC_DomH2 == {3}
MC_DomH3 == {2}
MC_DomH4 == {7}
MC_DomH5 == {9}
MC_DomHDKG == {4}
MC_DomHR == {1}
MC_DomHID == {1}
MC_Shapes == {<<3,2>>, <<3,3>>}
MC_IdSets == {{1,2,3}, {4,9,10}}
MC_A0Choices == {1,10}
MC_CoeffChoices == {0,3,7}
MC_KChoices == {2}
MC_MaxExtra == 0
MC_RandChoices == {1}
MC_Msg == <<104,105>>
MC_SweepSigners == FALSE
MC_EMIT == TRUE

====
