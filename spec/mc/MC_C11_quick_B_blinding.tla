---- MODULE MC_C11_quick_B_blinding ----
EXTENDS C11
MC_DomH1 == {5}
MC_DomH2 == {3}
MC_DomH3 == {2}
MC_DomH4 == {7}
MC_DomH5 == {9}
MC_DomHDKG == {1}
MC_DomHR == {1}
MC_DomHID == {1}
MC_Shapes == {<<3,2>>}
MC_IdSets == {{2,3,5}}
MC_KeyChoices == {3}
MC_CoeffChoices == {5}
MC_DeltaChoices == 0..6
MC_NewIds == {1,6}
MC_Scenarios == {"ok"}
MC_MaxExtraH == 0
MC_RandChoices == {1}
MC_Msg == <<104,105>>
MC_Sweep == FALSE
MC_EMIT == TRUE

====
