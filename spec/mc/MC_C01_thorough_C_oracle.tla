---- MODULE MC_C01_thorough_C_oracle ----
EXTENDS C01
MC_DomH1 == 0..6
MC_DomH2 == 0..6
MC_DomH3 == {2,5}
MC_DomH4 == {0,255}
MC_DomH5 == {9}
MC_DomHDKG == {1}
MC_DomHR == {1}
MC_DomHID == {1}
MC_Shapes == {<<2,2>>}
MC_IdSets == {{3,5}}
MC_KeyChoices == {4}
MC_CoeffChoices == {6}
MC_RandChoices == {1,2}
MC_Msgs == {<<>>, <<104,105>>}
MC_MaxExtra == 0
MC_EMIT == TRUE
MC_ListOrders == {"asc"}
MC_BatchAtEnd == FALSE
MC_CoordPkps == {"current"}

====
