---- MODULE MC_C09_quick_C_n3_tA3_tB2 ----
EXTENDS C09
MC_DomH1 == {1}
MC_DomH2 == {1}
MC_DomH3 == {1}
MC_DomH4 == {7}
MC_DomH5 == {9}
MC_DomHDKG == {4}
MC_DomHR == {1}
MC_DomHID == {1}
MC_Shape == <<3,3>>
MC_TB == 2
MC_SameR1 == TRUE
MC_Ids == {1, 4, 6}
MC_Who == {1, 4, 6}
MC_PolyA == (1 :> <<3,5,1>> @@ 4 :> <<1,0,2>> @@ 6 :> <<6,2,2>>)
MC_PolyB == (1 :> <<4,1>> @@ 4 :> <<2,2>> @@ 6 :> <<5,6>>)
MC_KA == 2
MC_KB == 3
MC_EMIT == TRUE

====
