---- MODULE MC_C13_thorough_B_n3t3 ----
EXTENDS C13
MC_DomH1 == {5}
MC_DomH2 == {3}
MC_DomH3 == {2}
MC_DomH4 == {7}
MC_DomH5 == {9}
MC_DomHDKG == {4}
MC_DomHR == {1}
MC_DomHID == {1}
MC_Shape == <<3,3>>
MC_Ids == {1,2,3}
MC_Polys == (1 :> <<3,5,1>> @@ 2 :> <<1,4,8>> @@ 3 :> <<6,2,2>>)
MC_RPolys == (1 :> <<4,1>> @@ 2 :> <<9,3>> @@ 3 :> <<1,10>>)
MC_DCoeffs == <<5,8>>
MC_KNonce == 2
MC_Crash == {{b} : b \in {"dkg1","dkg2","dkg3","commit","rdkg1","rdkg2","rdkg3","dealer_share","dealer_kp","repair_delta","repair_sigma","repair_kp","commit2"}} \cup {{}, {"dkg1","dkg2","dkg3","commit","rdkg1","rdkg2","rdkg3","dealer_share","dealer_kp","repair_delta","repair_sigma","repair_kp","commit2"}}
MC_Forms == {"bin","json"}
MC_Msg == <<>>
MC_EMIT == TRUE

====
