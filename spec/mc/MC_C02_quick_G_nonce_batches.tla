---- MODULE MC_C02_quick_G_nonce_batches ----
EXTENDS C15
MC_DomH1 == {1}
MC_DomH2 == {1}
MC_DomH3 == {2,5}
MC_DomH4 == {7}
MC_DomH5 == {9}
MC_DomHDKG == {1}
MC_DomHR == {1}
MC_DomHID == {1}
MC_ShareChoices == {3}
MC_RandChoices == {1,2}
MC_Calls == {<<1>>, <<2>>, <<1,2>>, <<3>>}
MC_EMIT == TRUE

====
