---- MODULE MC_C11_quick_C_shape_n5 ----
EXTENDS C11
MC_DomH1 == {3}
MC_DomH2 == {3}
MC_DomH3 == {4}
MC_DomH4 == {7}
MC_DomH5 == {9}
MC_DomHDKG == {1}
MC_DomHR == {1}
MC_DomHID == {1}
MC_Shapes == {<<5,3>>}
MC_IdSets == {{1,2,3,4,5}, {1,3,6,8,10}}
MC_KeyChoices == {7}
MC_CoeffChoices == {3}
MC_DeltaChoices == {4}
MC_NewIds == {9}
MC_Scenarios == {"ok","bad"}
MC_MaxExtraH == 2
MC_RandChoices == {1}
MC_Msg == <<104,105>>
MC_Sweep == FALSE
MC_EMIT == TRUE

====
