---- MODULE MC_C09_thorough_C_n3_tA2_tB3 ----
EXTENDS C09
MC_DomH1 == {1}
MC_DomH2 == {1}
MC_DomH3 == {1}
MC_DomH4 == {7}
MC_DomH5 == {9}
MC_DomHDKG == {4}
MC_DomHR == {1}
MC_DomHID == {1}
MC_Shape == <<3,2>>
MC_TB == 3
MC_SameR1 == TRUE
MC_Ids == {2, 3, 5}
MC_Who == {2, 3, 5}
MC_PolyA == (2 :> <<3,5>> @@ 3 :> <<1,0>> @@ 5 :> <<6,2>>)
MC_PolyB == (2 :> <<4,1,2>> @@ 3 :> <<2,2,6>> @@ 5 :> <<5,6,3>>)
MC_KA == 2
MC_KB == 3
MC_EMIT == TRUE

====
