-------------------------------- MODULE C15 --------------------------------
(* C15: signing nonces are fresh, hedged, and derived exactly as the RFC    *)
(* prescribes.  A key holder makes a sequence of commit / preprocess(k)     *)
(* calls; every call takes 2k consecutive 32-byte draws (hiding first) and  *)
(* each nonce is H3(draw || encoded signing share).  The random source may  *)
(* be constant or repeating (RandChoices small).  Batches of more than 4    *)
(* pairs take a counting source (size sweeps up to the u8 maximum 255).     *)
EXTENDS Frost, Json

CONSTANTS ShareChoices,   \* signing shares of the key holder
          RandChoices,    \* values of the distinguishing byte of a 32-byte draw
          Calls,          \* set of sequences of batch sizes, e.g. <<1, 2>> = commit; preprocess(2)
          EMIT

VARIABLES pc, sc
vars == <<fvars, pc, sc>>
KPH == <<"kp", 1>>

Init == FrostInit /\ pc = <<"start", 0>> /\ sc = [calls |-> << >>]

\* the key holder's package (identifier 1, threshold 2, group key irrelevant here)
Start ==
  /\ pc[1] = "start"
  /\ \E s \in ShareChoices, cs \in Calls :
       /\ ActSplit("ss", <<"pkp", 0>>, s, 2, 2, <<1, 2>>, TRUE, <<0>>)     \* constant polynomial: share = s
       /\ sc' = [calls |-> cs, share |-> s, draws |-> << >>, nonces |-> << >>]
  /\ pc' = <<"kp", 0>>

MakeKp ==
  /\ pc[1] = "kp"
  /\ ActKpFromSs(KPH, <<"ss", 1>>)
  /\ pc' = <<"call", 1>>
  /\ UNCHANGED sc

ActPreprocess(nn, cn, kph, bs) ==
  ActPreprocessR(nn, cn, kph, [j \in DOMAIN bs |-> Rand32(bs[j])], [rng32 |-> bs])

Call ==
  /\ pc[1] = "call"
  /\ LET k == sc.calls[pc[2]]
         nn == "non" \o ToString(pc[2])
         cn == "comm" \o ToString(pc[2])
     \* (large batches, for the size sweeps: one behaviour, every draw distinguishable)
     IN \E bs \in (IF k > 4 THEN {[j \in 1..(2 * k) |-> (j * 7) % 256]} ELSE SeqsOf(RandChoices, 2 * k)) :
          /\ IF k = 1 /\ pc[2] % 2 = 1
             THEN ActCommit(<<nn, 1>>, <<cn, 1>>, KPH, bs[1], bs[2])      \* commit() = preprocess(1)
             ELSE ActPreprocess(nn, cn, KPH, bs)
          /\ sc' = [sc EXCEPT !.draws = @ \o bs]
  /\ pc' = IF pc[2] = Len(sc.calls) THEN <<"done", 0>> ELSE <<"call", pc[2] + 1>>

Next == Start \/ MakeKp \/ Call
Spec == Init /\ [][Next]_vars

-----------------------------------------------------------------------------
(* Properties *)

RECURSIVE ISum(_)
ISum(s) == IF s = << >> THEN 0 ELSE Head(s) + ISum(Tail(s))

\* nonce = H3(own draw || share), commitment = G * nonce, draws consumed in order
InvDerivation ==
  (pc[1] \in {"call", "done"} /\ "draws" \in DOMAIN sc) =>
     \A c \in 1..Len(sc.calls) : \A j \in 1..sc.calls[c] :
        LET h == <<"non" \o ToString(c), j>>
            \* position of this pair's draws in the whole draw sequence
            before == ISum([x \in 1..(c - 1) |-> 2 * sc.calls[x]]) + 2 * (j - 1)
        IN (Has(h) /\ Len(sc.draws) >= before + 2) =>
             /\ env[h].hiding  = ro[KeyH3(Rand32(sc.draws[before + 1]), sc.share)]
             /\ env[h].binding = ro[KeyH3(Rand32(sc.draws[before + 2]), sc.share)]
             /\ env[h].D = env[h].hiding /\ env[h].E = env[h].binding

Emit == (EMIT /\ pc[1] = "done") => PrintT(ToJson(Script("C15")))
=============================================================================
