-------------------------------- MODULE C16 --------------------------------
(* C16: all secret randomness is drawn fresh from the caller's source and   *)
(* nowhere else.  One entry point per behaviour, with the draw sequence the *)
(* specification prescribes, including the rejected zero draws of           *)
(* random_nonzero: dealer key generation (key, t-1 coefficients), DKG part1 *)
(* (secret, coefficients, proof nonce), both refresh procedures, repair     *)
(* (|H|-1 blinding values), randomizer seed, batch blinders, single-signer  *)
(* nonce.  The replay requires that every listed value equals its own draw  *)
(* and that the source is consumed exactly as scripted.                     *)
EXTENDS Frost, Json

CONSTANTS Probes, Vals,      \* values drawn
          NZVals,            \* non-zero results of random_nonzero
          MaxZeros,          \* rejected zero draws tried before a non-zero one
          Shapes, EMIT

VARIABLES pc, sc
vars == <<fvars, pc, sc>>
PKP == <<"pkp", 0>>

Init == FrostInit /\ pc = <<"probe", 0>> /\ sc = [probe |-> "none"]
Zeros(z) == [j \in 1..z |-> Draw2(0)]

\* generate_with_dealer(n, t, ids, rng): key by random_nonzero *before* validation
ActGenDealer(ssn, pkph, zeros, key, n, t, ids, custom, coeffs) ==
  LET res == Split(key, n, t, ids, custom, coeffs)
      binds == IF res.ok
               THEN [h \in {pkph} \cup {<<ssn, i>> : i \in DOMAIN res.shares} |->
                       IF h = pkph THEN [ty |-> "pkp", vs |-> res.vs, vk |-> res.vk, min |-> res.min]
                       ELSE [ty |-> "ss", id |-> h[2], share |-> res.shares[h[2]], commit |-> res.commit]]
               ELSE << >>
  IN /\ Len(coeffs) = SplitDraws(n, t, ids, custom)
     /\ ro' = ro
     /\ Finish("split", res, binds,
               [op |-> "split", out_ss |-> ssn, out_pkp |-> pkph, n |-> n, t |-> t, ids |-> ids, custom |-> custom,
                rng |-> Zeros(zeros) \o <<Draw2(key)>> \o Draws2(coeffs),
                expect |-> IF res.ok THEN [ok |-> TRUE, shares |-> Pairs(res.shares), commit |-> res.commit,
                                          vs |-> Pairs(res.vs), vk |-> res.vk, min |-> res.min]
                           ELSE ErrProj(res)])

\* part1 with rejected zero draws before the secret (z0) and before the proof nonce (zk)
ActDkg1Z(sech, pkgh, id, n, t, z0, a0, coeffs, zk, k) ==
  /\ Len(coeffs) = Dkg1Draws(n, t)
  /\ \E o \in Outcomes(ro, "dkg1", [id |-> id, n |-> n, t |-> t, a0 |-> a0, coeffs |-> coeffs, k |-> k, refresh |-> FALSE]) :
       LET res == o[2] IN
       /\ ro' = o[1]
       /\ Finish("dkg1", res, << >>,
                 [op |-> "dkg1", out_sec |-> sech, out_pkg |-> pkgh, id |-> id, n |-> n, t |-> t, refresh |-> FALSE,
                  rng |-> IF ParamErr(n, t) # "none" THEN << >>
                          ELSE Zeros(z0) \o <<Draw2(a0)>> \o Draws2(coeffs) \o Zeros(zk) \o <<Draw2(k)>>,
                  expect |-> IF res.ok THEN [ok |-> TRUE, coeffs |-> res.coeffs, commit |-> res.commit, R |-> res.R,
                                            mu |-> res.mu]
                             ELSE ErrProj(res)])

Probe ==
  /\ pc[1] = "probe"
  /\ \E pr \in Probes :
       /\ sc' = [probe |-> pr]
       /\ \/ /\ pr = "dealer"
             /\ \E sh \in Shapes, z \in 0..MaxZeros, key \in NZVals :
                  \E cs \in SeqsOf(Vals, SplitDraws(sh[1], sh[2], << >>, FALSE)) :
                     ActGenDealer("ss", PKP, z, key, sh[1], sh[2], << >>, FALSE, cs)
             /\ pc' = <<"done", 0>>
          \/ /\ pr = "dkg1"
             /\ \E sh \in Shapes, z0 \in 0..MaxZeros, zk \in 0..MaxZeros, a0 \in NZVals, k \in NZVals :
                  \E cs \in SeqsOf(Vals, Dkg1Draws(sh[1], sh[2])) :
                     ActDkg1Z(<<"r1s", 1>>, <<"r1p", 1>>, 1, sh[1], sh[2], z0, a0, cs, zk, k)
             /\ pc' = <<"done", 0>>
          \* refresh_dkg_part1: t-1 coefficients, then the proof nonce (random_nonzero)
          \/ /\ pr = "rdkg1"
             /\ \E sh \in Shapes, zk \in 0..MaxZeros, k \in NZVals :
                  \E cs \in SeqsOf(Vals, Dkg1Draws(sh[1], sh[2])) :
                     \E o \in Outcomes(ro, "dkg1", [id |-> 1, n |-> sh[1], t |-> sh[2], a0 |-> 0, coeffs |-> cs, k |-> k, refresh |-> TRUE]) :
                        /\ ro' = o[1]
                        /\ Finish("dkg1", o[2], << >>,
                                  [op |-> "dkg1", out_sec |-> <<"r1s", 1>>, out_pkg |-> <<"r1p", 1>>, id |-> 1, n |-> sh[1], t |-> sh[2],
                                   refresh |-> TRUE,
                                   rng |-> IF ParamErr(sh[1], sh[2]) # "none" THEN << >> ELSE Draws2(cs) \o Zeros(zk) \o <<Draw2(k)>>,
                                   expect |-> IF o[2].ok THEN [ok |-> TRUE, coeffs |-> o[2].coeffs, commit |-> o[2].commit, R |-> o[2].R, mu |-> o[2].mu]
                                              ELSE ErrProj(o[2])])
             /\ pc' = <<"done", 0>>
          \/ /\ pr = "single"
             /\ ActMkSk(<<"sk", 0>>, CHOOSE v \in NZVals : TRUE)
             /\ pc' = <<"single2", 0>>
          \/ /\ pr \in {"repair", "refresh", "rr", "batch"}
             /\ \E key \in NZVals : ActSplit("ss", PKP, key, 3, 2, <<1, 2, 3>>, TRUE, <<CHOOSE v \in NZVals : TRUE>>)
             /\ pc' = <<pr, 1>>

Single2 ==
  /\ pc[1] = "single2"
  /\ \E z \in 0..MaxZeros, k \in NZVals : ActSingleSign(<<"sig", 0>>, <<"sk", 0>>, z, k, <<1, 2>>)
  /\ pc' = <<"done", 0>>
  /\ UNCHANGED sc

\* repair: |H| - 1 blinding values
Repair ==
  /\ pc[1] = "repair"
  /\ UNCHANGED sc
  /\ IF pc[2] = 1 THEN ActKpFromSs(<<"kp", 1>>, <<"ss", 1>>) /\ pc' = <<"repair", 2>>
     ELSE /\ \E hs \in {<<1, 2>>, <<1, 2, 3>>} : \E ds \in SeqsOf(Vals, Len(hs) - 1) :
               ActRepair1("d", hs, <<"kp", 1>>, ds, 5)
          /\ pc' = <<"done", 0>>

\* trusted-dealer refresh: t-1 coefficients
Refresh ==
  /\ pc[1] = "refresh"
  /\ UNCHANGED sc
  /\ \E cs \in SeqsOf(Vals, 1) : ActRefreshShares("zs", <<"pkpN", 0>>, PKP, <<1, 2, 3>>, cs)
  /\ pc' = <<"done", 0>>

\* randomizer seed: one draw of scalar length
Rr ==
  /\ pc[1] = "rr"
  /\ UNCHANGED sc
  /\ CASE pc[2] = 1 -> ActKpFromSs(<<"kp", 1>>, <<"ss", 1>>) /\ pc' = <<"rr", 2>>
       [] pc[2] = 2 -> ActCommit(<<"non", 1>>, <<"comm", 1>>, <<"kp", 1>>, 1, 2) /\ pc' = <<"rr", 3>>
       [] pc[2] = 3 -> ActPackage(<<"pkg", 0>>, <<7>>, (1 :> <<"comm", 1>>)) /\ pc' = <<"rr", 4>>
       [] pc[2] = 4 -> (\E v \in Vals : ActRrNew(<<"rp", 0>>, <<"seed", 0>>, PKP, <<"pkg", 0>>, U16(v))) /\ pc' = <<"done", 0>>

\* batch: one blinder per item
Batch ==
  /\ pc[1] = "batch"
  /\ UNCHANGED sc
  /\ CASE pc[2] = 1 -> ActMkSk(<<"sk", 0>>, CHOOSE v \in NZVals : TRUE) /\ pc' = <<"batch", 2>>
       [] pc[2] \in {2, 3, 4} ->
            ActSingleSign(<<"sig", pc[2]>>, <<"sk", 0>>, 0, CHOOSE v \in NZVals : TRUE, <<pc[2]>>) /\ pc' = <<"batch", pc[2] + 1>>
       [] pc[2] = 5 ->
            (\E n \in 1..3 : \E bl \in SeqsOf(Vals, n) :
               ActBatch([k \in 1..n |-> [vk |-> <<"sk", 0>>, sig |-> <<"sig", k + 1>>, msg |-> <<k + 1>>]], bl))
            /\ pc' = <<"done", 0>>

Next == Probe \/ Single2 \/ Repair \/ Refresh \/ Rr \/ Batch
Spec == Init /\ [][Next]_vars

\* valid items are accepted for every blinder vector
InvBatchOk == (last.op = "batch") => last.res.ok
Emit == (EMIT /\ pc[1] = "done") => PrintT(ToJson(Script("C16")))
=============================================================================
