-------------------------------- MODULE C04 --------------------------------
(* C04: aggregation never releases an invalid signature and blames exactly  *)
(* the cheaters.  Schedule: dealer keys -> session A (commit, package, sign)*)
(* [-> concurrent session B of the same signers] -> the adversary fills     *)
(* every share slot of A with the honest share or a wrong one (off by d,    *)
(* negated, zero, another signer's share, the signer's share from session B,*)
(* a share made with negated nonces)                                        *)
(* -> standalone share verification of every slot -> aggregate in the three *)
(* detection modes -> verify whatever was released.                         *)
EXTENDS Frost, Json

CONSTANTS Shapes, IdSets, KeyChoices, CoeffChoices, RandChoices, MsgA, MsgB,
          MaxExtra, Deltas,      \* offsets used by the "add" kind
          Kinds,                 \* subset of {"add","neg","zero","other","sessB"}
          Modes,                 \* sequence of detection modes to run
          MaxCheaters,           \* at most this many slots are not honest (size sweeps)
          CoordPkps,             \* the coordinator's public key package: subset of {"current", "legacy"}
          EMIT

VARIABLES pc, sc
vars == <<fvars, pc, sc>>

PKP == <<"pkp", 0>>
PKGA == <<"pkgA", 0>>
PKGB == <<"pkgB", 0>>
UseB == "sessB" \in Kinds

Init == FrostInit /\ pc = <<"keygen", 0>> /\ sc = [n |-> 0]
Go(next) == pc' = IF last'.res.ok THEN next ELSE <<"done", 0>>
SSet == {sc.S[k] : k \in DOMAIN sc.S}
LastK(k) == k = Len(sc.S)

KeyGen ==
  /\ pc[1] = "keygen"
  /\ \E sh \in Shapes, I \in IdSets, key \in KeyChoices :
       /\ Card(I) = sh[1]
       /\ \E cs \in SeqsOf(CoeffChoices, sh[2] - 1) :
            /\ ActSplit("ss", PKP, key, sh[1], sh[2], Sorted(I), TRUE, cs)
            /\ sc' = [n |-> sh[1], t |-> sh[2], ids |-> Sorted(I), key |-> key]
  /\ Go(<<"kp", 1>>)

MakeKp ==
  /\ pc[1] = "kp"
  /\ LET i == sc.ids[pc[2]] IN ActKpFromSs(<<"kp", i>>, <<"ss", i>>)
  /\ Go(IF pc[2] = sc.n THEN <<"choose", 0>> ELSE <<"kp", pc[2] + 1>>)
  /\ UNCHANGED sc

Choose ==
  /\ pc[1] = "choose"
  /\ \E S \in (IF sc.t = sc.n THEN {{sc.ids[k] : k \in 1..sc.n}} ELSE SUBSET {sc.ids[k] : k \in 1..sc.n}) :
       /\ Card(S) >= sc.t /\ Card(S) <= sc.t + MaxExtra
       /\ \E ck \in CoordPkps : sc' = sc @@ [S |-> Sorted(S), coord |-> ck]
  /\ pc' = <<"mkleg", 0>>
  /\ UNCHANGED fvars

CPKP == IF sc.coord = "legacy" THEN <<"pkpLeg", 0>> ELSE PKP
MkLegacy ==
  /\ pc[1] = "mkleg"
  /\ IF sc.coord = "legacy" THEN ActLieMin(<<"pkpLeg", 0>>, PKP, -1) ELSE UNCHANGED fvars
  /\ pc' = <<"commitA", 1>>
  /\ UNCHANGED sc

DoCommit(ph, nn, cn, next) ==
  /\ pc[1] = ph
  /\ LET i == sc.S[pc[2]] IN
       \E b1 \in RandChoices, b2 \in RandChoices :
          ActCommit(<<nn, i>>, <<cn, i>>, <<"kp", i>>, b1, b2)
  /\ Go(IF LastK(pc[2]) THEN next ELSE <<ph, pc[2] + 1>>)
  /\ UNCHANGED sc

DoPackage(ph, pkgh, cn, msg, next) ==
  /\ pc[1] = ph
  /\ ActPackage(pkgh, msg, [i \in SSet |-> <<cn, i>>])
  /\ Go(next)
  /\ UNCHANGED sc

DoSign(ph, zn, pkgh, nn, next) ==
  /\ pc[1] = ph
  /\ LET i == sc.S[pc[2]] IN ActSign(<<zn, i>>, pkgh, <<nn, i>>, <<"kp", i>>)
  /\ Go(IF LastK(pc[2]) THEN next ELSE <<ph, pc[2] + 1>>)
  /\ UNCHANGED sc

\* the adversary decides slot k: sc.slot[i] is the handle submitted for signer i
KindsFor(i) ==
  {<<"honest", 0>>}
  \cup (IF "add"   \in Kinds THEN {<<"add", d>> : d \in Deltas} ELSE {})
  \cup (IF "neg"   \in Kinds THEN {<<"neg", 0>>} ELSE {})
  \cup (IF "zero"  \in Kinds THEN {<<"zero", 0>>} ELSE {})
  \cup (IF "other" \in Kinds THEN {<<"other", j>> : j \in SSet \ {i}} ELSE {})
  \cup (IF UseB THEN {<<"sessB", 0>>} ELSE {})
  \cup (IF "negnonce" \in Kinds THEN {<<"negnonce", 0>>} ELSE {})

Tamper ==
  /\ pc[1] = "tamper"
  /\ LET i == sc.S[pc[2]]
         old == IF "slot" \in DOMAIN sc THEN sc.slot ELSE << >>
     IN \E kd \in KindsFor(i) :
          /\ (kd[1] # "honest") => Card({j \in DOMAIN sc.kind : sc.kind[j][1] # "honest"}) < MaxCheaters
          /\ CASE kd[1] \in {"add", "neg", "zero"} ->
                    /\ ActTamperShare(<<"s", i>>, <<"zA", i>>, kd[1], kd[2])
                    /\ sc' = [sc EXCEPT !.slot = (i :> <<"s", i>>) @@ old, !.kind = (i :> kd) @@ sc.kind]
               [] kd[1] = "honest" ->
                    /\ UNCHANGED fvars
                    /\ sc' = [sc EXCEPT !.slot = (i :> <<"zA", i>>) @@ old, !.kind = (i :> kd) @@ sc.kind]
               [] kd[1] = "other" ->
                    /\ UNCHANGED fvars
                    /\ sc' = [sc EXCEPT !.slot = (i :> <<"zA", kd[2]>>) @@ old, !.kind = (i :> kd) @@ sc.kind]
               [] kd[1] = "sessB" ->
                    /\ UNCHANGED fvars
                    /\ sc' = [sc EXCEPT !.slot = (i :> <<"zB", i>>) @@ old, !.kind = (i :> kd) @@ sc.kind]
               [] kd[1] = "negnonce" ->
                    /\ ActNegNonces(<<"nonX", i>>, <<"nonA", i>>)
                    /\ sc' = [sc EXCEPT !.slot = (i :> <<"s", i>>) @@ old, !.kind = (i :> kd) @@ sc.kind]
          /\ pc' = IF kd[1] = "negnonce" THEN <<"tamper2", pc[2]>>
                   ELSE IF LastK(pc[2]) THEN <<"vshare", 1>> ELSE <<"tamper", pc[2] + 1>>

\* second half of the "negnonce" kind: the signer signs with the negated nonces
Tamper2 ==
  /\ pc[1] = "tamper2"
  /\ LET i == sc.S[pc[2]] IN ActSign(<<"s", i>>, PKGA, <<"nonX", i>>, <<"kp", i>>)
  /\ Go(IF LastK(pc[2]) THEN <<"vshare", 1>> ELSE <<"tamper", pc[2] + 1>>)
  /\ UNCHANGED sc

StartTamper ==
  /\ pc[1] = "starttamper"
  /\ sc' = sc @@ [slot |-> << >>, kind |-> << >>]
  /\ pc' = <<"tamper", 1>>
  /\ UNCHANGED fvars

DoVerifyShare ==
  /\ pc[1] = "vshare"
  /\ LET i == sc.S[pc[2]] IN ActVerifyShare(i, i, PKP, sc.slot[i], PKGA)
  /\ pc' = IF LastK(pc[2]) THEN <<"agg", 1>> ELSE <<"vshare", pc[2] + 1>>
  /\ UNCHANGED sc

DoAggregate ==
  /\ pc[1] = "agg"
  /\ ActAggregate(<<"sig", pc[2]>>, PKGA, sc.slot, CPKP, Modes[pc[2]])
  /\ pc' = IF last'.res.ok THEN <<"verify", pc[2]>>
           ELSE IF pc[2] = Len(Modes) THEN <<"done", 0>> ELSE <<"agg", pc[2] + 1>>
  /\ UNCHANGED sc

DoVerify ==
  /\ pc[1] = "verify"
  /\ ActVerify(PKP, MsgA, <<"sig", pc[2]>>)
  /\ pc' = IF pc[2] = Len(Modes) THEN <<"done", 0>> ELSE <<"agg", pc[2] + 1>>
  /\ UNCHANGED sc

Next == MkLegacy \/ KeyGen \/ MakeKp \/ Choose
        \/ DoCommit("commitA", "nonA", "commA", IF UseB THEN <<"commitB", 1>> ELSE <<"packageA", 0>>)
        \/ DoCommit("commitB", "nonB", "commB", <<"packageA", 0>>)
        \/ DoPackage("packageA", PKGA, "commA", MsgA, IF UseB THEN <<"packageB", 0>> ELSE <<"signA", 1>>)
        \/ DoPackage("packageB", PKGB, "commB", MsgB, <<"signA", 1>>)
        \/ DoSign("signA", "zA", PKGA, "nonA", IF UseB THEN <<"signB", 1>> ELSE <<"starttamper", 0>>)
        \/ DoSign("signB", "zB", PKGB, "nonB", <<"starttamper", 0>>)
        \/ StartTamper \/ Tamper \/ Tamper2 \/ DoVerifyShare \/ DoAggregate \/ DoVerify

Spec == Init /\ [][Next]_vars

-----------------------------------------------------------------------------
(* Properties, stated over ghost knowledge (who was given which share) and   *)
(* the signers' secrets, not over the library's own share check.            *)

Filled   == "slot" \in DOMAIN sc /\ DOMAIN sc.slot = SSet
Honest(i) == env[<<"zA", i>>].z
Given(i)  == env[sc.slot[i]].z
\* "a participant whose share differs from the honest one"
Cheaters  == {i \in SSet : Given(i) # Honest(i)}
CheatSeq  == Sorted(Cheaters)
SumGiven  == SumOver(SSet, LAMBDA i : Given(i))
SumHonest == SumOver(SSet, LAMBDA i : Honest(i))
Cancels   == SumGiven = SumHonest

\* honest shares of session A add up to a plain Schnorr signature under the
\* dealer's secret (C01), computed from the secrets
RhoA      == BindingFactors(ro, env[PKGA], sc.key).rho
NonceSumA == SumOver(SSet, LAMBDA i : Add(env[<<"nonA", i>>].hiding, Mul(RhoA[i], env[<<"nonA", i>>].binding)))
ChalA     == ro[KeyH2(NonceSumA, sc.key, MsgA)]

\* the mode of the aggregate that `last` reports: pc was advanced already
ModeOfLast == IF pc[1] = "verify" THEN Modes[pc[2]]
              ELSE IF pc[1] = "agg" THEN Modes[pc[2] - 1] ELSE Modes[Len(Modes)]

InvAggregate ==
  (last.op = "aggregate" /\ Filled) =>
    LET r == last.res IN
    IF Cancels
    THEN r.ok /\ r.R = NonceSumA /\ r.z = Add(NonceSumA, Mul(ChalA, sc.key))
    ELSE /\ ~r.ok
         /\ r.culprits = (CASE ModeOfLast = "Disabled" -> << >>
                            [] ModeOfLast = "FirstCheater" -> <<CheatSeq[1]>>
                            [] ModeOfLast = "AllCheaters" -> CheatSeq)
         /\ \A k \in DOMAIN r.culprits : r.culprits[k] \in Cheaters   \* honest never named

\* standalone share verification accepts exactly the honest share
InvVerifyShare ==
  (last.op = "verify_share" /\ Filled /\ pc[1] \in {"vshare", "agg"}) =>
    LET k == IF pc[1] = "agg" THEN Len(sc.S) ELSE pc[2] - 1
        i == sc.S[k]
    IN IF Given(i) = Honest(i) THEN last.res.ok
       ELSE ~last.res.ok /\ last.res.culprits = <<i>>

\* whatever aggregate released verifies
InvReleased == (last.op = "verify") => last.res.ok

Emit == (EMIT /\ pc[1] = "done") => PrintT(ToJson(Script("C04")))
=============================================================================
