-------------------------------- MODULE C10 --------------------------------
(* C10: refreshing shares keeps the group key, re-links all packages and    *)
(* retires old shares.  Dealer keys; then Rounds consecutive refreshes of a *)
(* remaining set R (|R| >= t) by the trusted-dealer or by the distributed   *)
(* procedure; then a signing attempt by a set S in which every signer uses  *)
(* its share of a chosen epoch (stale or fresh; removed participants only   *)
(* have stale ones).  Scenarios other than "ok" exercise refreshes that must *)
(* be rejected: too few participants, an unknown participant, a changed     *)
(* threshold, a refreshing contribution with a non-zero constant term.      *)
EXTENDS Frost, Json

CONSTANTS Shapes, IdSets, KeyChoices, CoeffChoices,     \* the original sharing
          Procs,                 \* subset of {"dealer", "dkg"}
          Scenarios,             \* subset of {"ok","small","unknown","tchange","nonzero","onelen","tchange_legacy"}
                                 \* (tchange_legacy: distributed variant, another threshold, and the old public key
                                 \*  package is a pre-3.0 one that records no threshold: the key package's counts)
          RCoeffChoices,         \* coefficients of refreshing polynomials
          KChoices,              \* proof nonces (distributed variant)
          Rounds,                \* number of consecutive refreshes in scenario "ok"
          RandChoices, Msg, MaxExtra,
          Sweep,                 \* shape sweeps: everybody or everybody but the largest identifier remains; the t
                                 \* smallest remaining identifiers sign with their newest shares
          EMIT

VARIABLES pc, sc
vars == <<fvars, pc, sc>>

Init == FrostInit /\ pc = <<"keygen", 0>> /\ sc = [n |-> 0]
Go(next) == pc' = IF last'.res.ok THEN next ELSE <<"done", 0>>
IdSet == {sc.ids[k] : k \in 1..sc.n}

\* handles per epoch e (0 = original)
KP(e, i)  == <<"kp" \o ToString(e), i>>
PKPd(e)   == <<"pkp" \o ToString(e), 0>>            \* dealer-made public package
PKPi(e,i) == <<"pkp" \o ToString(e), i>>            \* participant i's copy (distributed variant)
ZS(e, i)  == <<"zs" \o ToString(e), i>>
R2N(e, i) == "r2e" \o ToString(e) \o "from" \o ToString(i)

KeyGen ==
  /\ pc[1] = "keygen"
  /\ \E sh \in Shapes, I \in IdSets, key \in KeyChoices :
       /\ Card(I) = sh[1]
       /\ \E cs \in SeqsOf(CoeffChoices, sh[2] - 1) :
            /\ ActSplit("ss", PKPd(0), key, sh[1], sh[2], Sorted(I), TRUE, cs)
            /\ sc' = [n |-> sh[1], t |-> sh[2], ids |-> Sorted(I), key |-> key, e |-> 0,
                      share |-> [i \in I |-> EvalPoly(<<key>> \o cs, i)]]
  /\ Go(<<"kp", 1>>)

MakeKp ==
  /\ pc[1] = "kp"
  /\ LET i == sc.ids[pc[2]] IN ActKpFromSs(KP(0, i), <<"ss", i>>)
  /\ Go(IF pc[2] = sc.n THEN <<"plan", 0>> ELSE <<"kp", pc[2] + 1>>)
  /\ UNCHANGED sc

\* the public package a participant / the coordinator uses in epoch e
CurPkp(e, i) == IF e = 0 \/ sc.procs[e] = "dealer" THEN PKPd(e) ELSE PKPi(e, i)

Plan ==
  /\ pc[1] = "plan"
  /\ \E scen \in Scenarios, proc \in Procs :
       \/ /\ scen = "ok"
          /\ \E R \in SUBSET IdSet : Card(R) >= sc.t /\
               (Sweep => R \in {IdSet, IdSet \ {sc.ids[sc.n]}}) /\
               \E ord \in (IF proc = "dealer" THEN {"asc", "rot"} ELSE {"asc"}) :    \* the dealer's identifier slice
               sc' = sc @@ [scen |-> scen, R |-> Sorted(R), procs |-> <<proc>>, zsum |-> [i \in IdSet |-> 0],
                            order |-> ord]
       \/ /\ scen = "small"
          /\ \E R \in SUBSET IdSet : Card(R) < sc.t /\ Card(R) >= 1 /\
               sc' = sc @@ [scen |-> scen, R |-> Sorted(R), procs |-> <<proc>>, order |-> "asc"]
       \/ /\ scen \in {"unknown", "tchange", "nonzero"} \/ (scen = "tchange_legacy" /\ proc = "dkg")
          /\ sc' = sc @@ [scen |-> scen, R |-> sc.ids, procs |-> <<proc>>, order |-> "asc"]
       \* distributed variant: one participant's contribution commits to a polynomial of another degree
       \/ /\ scen = "onelen" /\ proc = "dkg" /\ sc.t + 1 <= sc.n
          /\ \E b \in IdSet : sc' = sc @@ [scen |-> scen, R |-> sc.ids, procs |-> <<proc>>, bad |-> b, order |-> "asc"]
  /\ pc' = <<"refresh", 1>>
  /\ UNCHANGED fvars

Proc == sc.procs[Len(sc.procs)]
E    == sc.e            \* current epoch; the refresh under way produces E+1
RSet == {sc.R[k] : k \in DOMAIN sc.R}
Unknown == CHOOSE u \in ZqNZ : u \notin IdSet
LastR(k) == k = Len(sc.R)

-----------------------------------------------------------------------------
(* trusted-dealer refresh *)

DealerShares ==
  /\ pc[1] = "refresh" /\ Proc = "dealer"
  /\ LET ids == IF sc.scen = "unknown" THEN Append(sc.R, Unknown) ELSE OrderOf(sc.R, sc.order)
         src == IF sc.scen = "tchange" THEN <<"pkpLie", 0>> ELSE PKPd(E)
     IN /\ Has(src)
        /\ \E cs \in SeqsOf(RCoeffChoices, RefreshDraws(env[src], ids)) :
          /\ ActRefreshShares("zs" \o ToString(E + 1), PKPd(E + 1), src, ids, cs)
          /\ sc' = IF sc.scen = "ok"
                   THEN [sc EXCEPT !.zsum = [i \in IdSet |-> IF i \in RSet THEN Add(@[i], EvalPoly(<<0>> \o cs, i)) ELSE @[i]]]
                   ELSE sc
  /\ Go(IF sc.scen = "nonzero" THEN <<"forge", 0>> ELSE <<"dshare", 1>>)

\* scenario tchange: the dealer is handed a package that claims another threshold
LieThreshold ==
  /\ pc[1] = "refresh" /\ Proc = "dealer" /\ sc.scen = "tchange" /\ ~Has(<<"pkpLie", 0>>)
  /\ \E m \in {sc.t - 1, sc.t + 1} : m >= 2 /\ m <= sc.n /\ ActLieMin(<<"pkpLie", 0>>, PKPd(E), m)
  /\ UNCHANGED <<pc, sc>>

\* scenario nonzero: a refreshing share of a polynomial with constant term 1
ForgeNonZero ==
  /\ pc[1] = "forge"
  /\ IF Proc = "dealer" THEN ActTamperSs(ZS(E + 1, sc.R[1]), ZS(E + 1, sc.R[1]), "share", 0, 1)
     ELSE ActTamperR2(<<R2N(E + 1, sc.R[2]), sc.R[1]>>, <<R2N(E + 1, sc.R[2]), sc.R[1]>>, 1)
  /\ pc' = IF Proc = "dealer" THEN <<"dshare", 1>> ELSE <<"rd3", 1>>
  /\ UNCHANGED sc

DealerShare ==
  /\ pc[1] = "dshare"
  /\ LET i == sc.R[pc[2]] IN ActRefreshShare(KP(E + 1, i), ZS(E + 1, i), KP(E, i))
  /\ Go(IF LastR(pc[2]) THEN <<"epoch", 0>> ELSE <<"dshare", pc[2] + 1>>)
  /\ UNCHANGED sc

-----------------------------------------------------------------------------
(* distributed refresh *)

NR == IF sc.scen = "unknown" THEN Len(sc.R) + 1 ELSE Len(sc.R)
TR == IF sc.scen \in {"tchange", "tchange_legacy"} THEN (IF sc.t + 1 <= NR THEN sc.t + 1 ELSE sc.t - 1) ELSE sc.t

TRi(i) == IF sc.scen = "onelen" /\ i = sc.bad THEN sc.t + 1 ELSE TR

Rd1 ==
  /\ pc[1] = "refresh" /\ Proc = "dkg"
  /\ LET i == sc.R[pc[2]] IN
       \E k \in KChoices : \E cs \in SeqsOf(RCoeffChoices, Dkg1Draws(NR, TRi(i))) :
          /\ ActDkg1(<<"rr1s" \o ToString(E + 1), i>>, <<"rr1p" \o ToString(E + 1), i>>, i, NR, TRi(i), 0, cs, k, TRUE)
          /\ sc' = IF sc.scen = "ok"
                   THEN [sc EXCEPT !.zsum = [j \in IdSet |-> IF j \in RSet THEN Add(@[j], EvalPoly(<<0>> \o cs, j)) ELSE @[j]]]
                   ELSE sc
  /\ Go(IF LastR(pc[2]) THEN <<"rd2", 1>> ELSE <<"refresh", pc[2] + 1>>)

Rd2 ==
  /\ pc[1] = "rd2"
  /\ LET i == sc.R[pc[2]] IN
       ActDkg2(<<"rr2s" \o ToString(E + 1), i>>, R2N(E + 1, i), <<"rr1s" \o ToString(E + 1), i>>,
               [l \in RSet \ {i} |-> <<"rr1p" \o ToString(E + 1), l>>], TRUE)
  /\ Go(IF LastR(pc[2]) THEN (IF sc.scen = "nonzero" THEN <<"forge", 0>>
                             ELSE IF sc.scen = "tchange_legacy" THEN <<"legacy", 1>> ELSE <<"rd3", 1>>)
        ELSE <<"rd2", pc[2] + 1>>)
  /\ UNCHANGED sc

\* every participant's copy of the old public key package loses its threshold field (pre-3.0 encoding)
OldPkp(i) == IF sc.scen = "tchange_legacy" THEN <<"pkpLeg", i>> ELSE CurPkp(E, i)
MakeLegacy ==
  /\ pc[1] = "legacy"
  /\ LET i == sc.R[pc[2]] IN ActLieMin(<<"pkpLeg", i>>, CurPkp(E, i), -1)
  /\ pc' = IF LastR(pc[2]) THEN <<"rd3", 1>> ELSE <<"legacy", pc[2] + 1>>
  /\ UNCHANGED sc

Rd3 ==
  /\ pc[1] = "rd3"
  /\ LET i == sc.R[pc[2]] IN
       ActDkg3(KP(E + 1, i), PKPi(E + 1, i), <<"rr2s" \o ToString(E + 1), i>>,
               [l \in RSet \ {i} |-> <<"rr1p" \o ToString(E + 1), l>>],
               [l \in RSet \ {i} |-> <<R2N(E + 1, l), i>>], TRUE, OldPkp(i), KP(E, i))
  /\ Go(IF LastR(pc[2]) THEN <<"epoch", 0>> ELSE <<"rd3", pc[2] + 1>>)
  /\ UNCHANGED sc

-----------------------------------------------------------------------------
(* next epoch or the signing attempt *)

NextEpoch ==
  /\ pc[1] = "epoch"
  /\ UNCHANGED fvars
  /\ IF sc.scen = "ok" /\ E + 1 < Rounds
     THEN \E proc \in Procs :
            /\ sc' = [sc EXCEPT !.e = E + 1, !.procs = Append(@, proc)]
            /\ pc' = <<"refresh", 1>>
     ELSE /\ sc' = [sc EXCEPT !.e = E + 1]
          /\ pc' = IF sc.scen = "ok" THEN <<"choose", 0>> ELSE <<"done", 0>>

\* who signs, and with the share of which epoch
Choose ==
  /\ pc[1] = "choose"
  /\ \E S \in SUBSET IdSet :
       /\ Card(S) >= sc.t /\ Card(S) <= sc.t + MaxExtra
       /\ Sweep => S = {sc.R[k] : k \in 1..sc.t}
       /\ \E em \in [S -> 0..E] :
            /\ Sweep => \A i \in S : em[i] = E
            /\ \A i \in S : (i \notin RSet) => em[i] = 0
            /\ \A i \in S : em[i] \in {0, E}           \* original or newest share
            /\ sc' = sc @@ [S |-> Sorted(S), em |-> em]
  /\ pc' = <<"commit", 1>>
  /\ UNCHANGED fvars

SSet == {sc.S[k] : k \in DOMAIN sc.S}
LastS(k) == k = Len(sc.S)
PKG == <<"pkg", 0>>
SIG == <<"sig", 0>>
CoordPkp == CurPkp(E, sc.R[1])

DoCommit ==
  /\ pc[1] = "commit"
  /\ LET i == sc.S[pc[2]] IN
       \E b1 \in RandChoices, b2 \in RandChoices :
          ActCommit(<<"non", i>>, <<"comm", i>>, KP(sc.em[i], i), b1, b2)
  /\ Go(IF LastS(pc[2]) THEN <<"package", 0>> ELSE <<"commit", pc[2] + 1>>)
  /\ UNCHANGED sc

DoPackage ==
  /\ pc[1] = "package"
  /\ ActPackage(PKG, Msg, [i \in SSet |-> <<"comm", i>>])
  /\ Go(<<"sign", 1>>)
  /\ UNCHANGED sc

DoSign ==
  /\ pc[1] = "sign"
  /\ LET i == sc.S[pc[2]] IN ActSign(<<"z", i>>, PKG, <<"non", i>>, KP(sc.em[i], i))
  /\ Go(IF LastS(pc[2]) THEN <<"aggregate", 0>> ELSE <<"sign", pc[2] + 1>>)
  /\ UNCHANGED sc

DoAggregate ==
  /\ pc[1] = "aggregate"
  /\ ActAggregate(SIG, PKG, [i \in SSet |-> <<"z", i>>], CoordPkp, "AllCheaters")
  /\ Go(<<"verify", 0>>)
  /\ UNCHANGED sc

DoVerify ==
  /\ pc[1] = "verify"
  /\ ActVerify(CoordPkp, Msg, SIG)
  /\ pc' = <<"done", 0>>
  /\ UNCHANGED sc

Next == KeyGen \/ MakeKp \/ Plan \/ LieThreshold \/ DealerShares \/ ForgeNonZero \/ DealerShare
        \/ Rd1 \/ Rd2 \/ MakeLegacy \/ Rd3 \/ NextEpoch \/ Choose \/ DoCommit \/ DoPackage \/ DoSign \/ DoAggregate \/ DoVerify
Spec == Init /\ [][Next]_vars

-----------------------------------------------------------------------------
(* Properties *)

Planned == "scen" \in DOMAIN sc
OkScen  == Planned /\ sc.scen = "ok"
\* the share participant i must hold after the refreshes done so far
NewShare(i) == Add(sc.share[i], sc.zsum[i])

\* every refreshed key package: same identifier and threshold, group key
\* unchanged, verifying share = G * new signing share = its public-package entry
InvRelinked ==
  (OkScen /\ last.res.ok /\ last.op \in {"refresh_share", "dkg3"} /\ pc[1] \in {"dshare", "rd3", "epoch"}) =>
     LET kp == IF last.op = "dkg3" THEN last.res.kp ELSE last.res
         i == kp.id
         pk == IF last.op = "dkg3" THEN last.res.pkp ELSE env[PKPd(E + 1)]
     IN /\ i \in RSet /\ kp.min = sc.t /\ kp.vk = sc.key /\ pk.vk = sc.key /\ pk.min = sc.t
        /\ kp.vs = kp.share
        /\ pk.vs[i] = kp.vs
        /\ DOMAIN pk.vs = RSet

\* after a completed refresh the new shares are shares of the same secret
InvSameSecret ==
  (OkScen /\ pc[1] = "choose") =>
     /\ \A i \in RSet : env[KP(E, i)].share = NewShare(i)
     /\ \A T \in SUBSET RSet : Card(T) = sc.t => Interp0(T, [i \in T |-> env[KP(E, i)].share]) = sc.key
     /\ \A i \in RSet, j \in RSet : env[CurPkp(E, i)] = env[CurPkp(E, j)]

\* honest refreshes never fail (a zero first coefficient makes the distributed
\* variant's proof of knowledge unencodable: the only degenerate case)
InvRefreshOk ==
  (OkScen /\ ~last.res.ok /\ last.op \in {"refresh_shares", "refresh_share", "dkg1", "dkg2", "dkg3"}) =>
     (last.op = "dkg1" /\ last.res.err = "GroupError")

\* the signing attempt
Removed == SSet \ RSet
Stale   == {i \in SSet \cap RSet : sc.em[i] = 0 /\ sc.share[i] # NewShare(i)}
InvSigning ==
  (OkScen /\ last.op = "aggregate" /\ "S" \in DOMAIN sc) =>
     IF Removed # {} THEN ~last.res.ok                            \* a removed participant
     ELSE IF Stale = {} THEN last.res.ok                          \* fresh shares (or unchanged ones) sign
     ELSE last.res.ok \/ last.res.culprits = Sorted(Stale)        \* stale shares are named
InvSigning2 ==
  (OkScen /\ last.op = "aggregate" /\ last.res.ok /\ "S" \in DOMAIN sc) =>
     \* released only if the shares actually used interpolate to the secret
     Interp0(SSet, [i \in SSet |-> IF sc.em[i] = 0 THEN sc.share[i] ELSE NewShare(i)]) = sc.key
InvVerify == (last.op = "verify") => last.res.ok

\* refreshes that must be rejected
InvRejected ==
  (Planned /\ sc.scen # "ok" /\ pc[1] = "done") =>
     /\ ~last.res.ok
     /\ (sc.scen = "onelen") => ((last.op = "dkg2" /\ last.res.err = "IncorrectNumberOfCommitments")
                                  \/ (last.op = "dkg1" /\ last.res.err = "GroupError"))
     /\ (sc.scen = "unknown" /\ Proc = "dealer") => last.res.err = "UnknownIdentifier"
     \* (a zero first coefficient makes part1's commitment unencodable before the forged share is ever used)
     /\ (sc.scen = "nonzero") => (last.res.err = "InvalidSecretShare" \/ (last.op = "dkg1" /\ last.res.err = "GroupError"))

Emit == (EMIT /\ pc[1] = "done" /\ Planned) =>
   PrintT(ToJson(Script("C10") @@ [probe |-> sc.scen, gen_accept |-> (sc.scen = "ok"), accepted |-> last.res.ok]))
=============================================================================
