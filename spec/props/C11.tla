-------------------------------- MODULE C11 --------------------------------
(* C11: share repair returns exactly the lost share and needs a threshold of *)
(* helpers.  Dealer keys; a helper set H and a target identifier x (an       *)
(* existing participant outside H, or a brand-new identifier); the three     *)
(* repair parts; then a signing session that includes the repaired share.    *)
(* Scenario "bad": helper lists that must be refused (fewer than t helpers,  *)
(* duplicates, a list that omits the calling helper).                        *)
EXTENDS Frost, Json

CONSTANTS Shapes, IdSets, KeyChoices, CoeffChoices, DeltaChoices, NewIds, Scenarios, MaxExtraH,
          Sweep,        \* shape sweeps: the t, or all other, smallest identifiers help the largest one
          RandChoices, Msg, EMIT

VARIABLES pc, sc
vars == <<fvars, pc, sc>>
PKP == <<"pkp", 0>>
PKG == <<"pkg", 0>>
SIG == <<"sig", 0>>

Init == FrostInit /\ pc = <<"keygen", 0>> /\ sc = [n |-> 0]
Go(next) == pc' = IF last'.res.ok THEN next ELSE <<"done", 0>>
IdSet == {sc.ids[k] : k \in 1..sc.n}
DN == [i \in 1..16 |-> "dfrom" \o ToString(i)]

KeyGen ==
  /\ pc[1] = "keygen"
  /\ \E sh \in Shapes, I \in IdSets, key \in KeyChoices :
       /\ Card(I) = sh[1]
       /\ \E cs \in SeqsOf(CoeffChoices, sh[2] - 1) :
            /\ ActSplit("ss", PKP, key, sh[1], sh[2], Sorted(I), TRUE, cs)
            /\ sc' = [n |-> sh[1], t |-> sh[2], ids |-> Sorted(I), key |-> key, poly |-> <<key>> \o cs]
  /\ Go(<<"kp", 1>>)

MakeKp ==
  /\ pc[1] = "kp"
  /\ LET i == sc.ids[pc[2]] IN ActKpFromSs(<<"kp", i>>, <<"ss", i>>)
  /\ Go(IF pc[2] = sc.n THEN <<"plan", 0>> ELSE <<"kp", pc[2] + 1>>)
  /\ UNCHANGED sc

\* the helper list is a slice in the caller's order: ascending, descending, rotated (CallerOrders)
Plan ==
  /\ pc[1] = "plan"
  /\ \/ /\ "ok" \in Scenarios
        /\ \E H \in SUBSET IdSet : Card(H) >= sc.t /\ Card(H) <= sc.t + MaxExtraH /\
             (Sweep => H \in {{sc.ids[k] : k \in 1..sc.t}, {sc.ids[k] : k \in 1..(sc.n - 1)}}) /\
             \E x \in (IdSet \ H) \cup (NewIds \ IdSet) : (Sweep => x = sc.ids[sc.n]) /\
             \E o \in CallerOrders(Sorted(H)) :
                sc' = sc @@ [scen |-> "ok", H |-> o, x |-> x]
     \/ /\ "bad" \in Scenarios
        /\ \E caller \in IdSet : \E other \in IdSet \ {caller} :
             \E hs \in { <<caller>>,                                  \* fewer than t (t >= 2)
                         <<caller, other, other>>,                    \* duplicate helper
                         <<caller, caller>>,
                         [k \in 1..Card(IdSet \ {caller}) |-> Sorted(IdSet \ {caller})[k]] } :   \* omits the caller
                sc' = sc @@ [scen |-> "bad", H |-> hs, x |-> CHOOSE y \in NewIds : y \notin IdSet, caller |-> caller]
  /\ pc' = <<"r1", 1>>
  /\ UNCHANGED fvars

HSet == {sc.H[k] : k \in DOMAIN sc.H}
LastH(k) == k = Len(sc.H)

Repair1 ==
  /\ pc[1] = "r1"
  /\ LET i == IF sc.scen = "bad" THEN sc.caller ELSE sc.H[pc[2]] IN
       \E ds \in SeqsOf(DeltaChoices, RepairDraws(sc.H, env[<<"kp", i>>])) :
          ActRepair1(DN[i], sc.H, <<"kp", i>>, ds, sc.x)
  /\ Go(IF sc.scen = "bad" THEN <<"done", 0>> ELSE IF LastH(pc[2]) THEN <<"r2", 1>> ELSE <<"r1", pc[2] + 1>>)
  /\ UNCHANGED sc

Repair2 ==
  /\ pc[1] = "r2"
  /\ LET j == sc.H[pc[2]] IN ActRepair2(<<"sigma", j>>, [k \in DOMAIN sc.H |-> <<DN[sc.H[k]], j>>])
  /\ Go(IF LastH(pc[2]) THEN <<"r3", 0>> ELSE <<"r2", pc[2] + 1>>)
  /\ UNCHANGED sc

Repair3 ==
  /\ pc[1] = "r3"
  /\ ActRepair3(<<"kpX", sc.x>>, [k \in DOMAIN sc.H |-> <<"sigma", sc.H[k]>>], sc.x, PKP)
  /\ Go(<<"choose", 0>>)
  /\ UNCHANGED sc

\* the repaired participant signs together with t-1 others
Choose ==
  /\ pc[1] = "choose"
  /\ \E O \in SUBSET (IdSet \ {sc.x}) : Card(O) = sc.t - 1 /\ sc' = sc @@ [S |-> Sorted(O \cup {sc.x})]
  /\ pc' = <<"commit", 1>>
  /\ UNCHANGED fvars

SSet == {sc.S[k] : k \in DOMAIN sc.S}
LastS(k) == k = Len(sc.S)
KpOf(i) == IF i = sc.x THEN <<"kpX", i>> ELSE <<"kp", i>>

DoCommit ==
  /\ pc[1] = "commit"
  /\ LET i == sc.S[pc[2]] IN
       \E b1 \in RandChoices, b2 \in RandChoices : ActCommit(<<"non", i>>, <<"comm", i>>, KpOf(i), b1, b2)
  /\ Go(IF LastS(pc[2]) THEN <<"package", 0>> ELSE <<"commit", pc[2] + 1>>)
  /\ UNCHANGED sc

DoPackage ==
  /\ pc[1] = "package"
  /\ ActPackage(PKG, Msg, [i \in SSet |-> <<"comm", i>>])
  /\ Go(<<"sign", 1>>)
  /\ UNCHANGED sc

DoSign ==
  /\ pc[1] = "sign"
  /\ LET i == sc.S[pc[2]] IN ActSign(<<"z", i>>, PKG, <<"non", i>>, KpOf(i))
  /\ Go(IF LastS(pc[2]) THEN <<"aggregate", 0>> ELSE <<"sign", pc[2] + 1>>)
  /\ UNCHANGED sc

\* a brand-new identifier has no entry in the public package yet: the
\* coordinator aggregates without cheater detection
DoAggregate ==
  /\ pc[1] = "aggregate"
  /\ ActAggregate(SIG, PKG, [i \in SSet |-> <<"z", i>>], PKP, IF sc.x \in IdSet THEN "FirstCheater" ELSE "Disabled")
  /\ Go(<<"verify", 0>>)
  /\ UNCHANGED sc

DoVerify ==
  /\ pc[1] = "verify"
  /\ ActVerify(PKP, Msg, SIG)
  /\ pc' = <<"done", 0>>
  /\ UNCHANGED sc

Next == KeyGen \/ MakeKp \/ Plan \/ Repair1 \/ Repair2 \/ Repair3 \/ Choose \/ DoCommit \/ DoPackage
        \/ DoSign \/ DoAggregate \/ DoVerify
Spec == Init /\ [][Next]_vars

-----------------------------------------------------------------------------
(* Properties *)

EvalPow(c, x) == SumSeq([k \in 1..Len(c) |-> Mul(c[k], Pow(x, k - 1))])
Planned == "scen" \in DOMAIN sc

\* each helper's outgoing values sum to its Lagrange-weighted share
InvDeltaSum ==
  (Planned /\ sc.scen = "ok" /\ last.op = "repair1" /\ last.res.ok) =>
     LET i == IF pc[1] = "r1" THEN sc.H[pc[2] - 1] ELSE sc.H[Len(sc.H)]
     IN /\ DOMAIN last.res.deltas = HSet
        /\ SumOver(HSet, LAMBDA j : last.res.deltas[j]) = Mul(Lagrange(HSet, sc.x, i), EvalPow(sc.poly, i))

\* honest repairs never fail
InvRepairOk ==
  (Planned /\ sc.scen = "ok" /\ last.op \in {"repair1", "repair2", "repair3"}) => last.res.ok

\* the repaired package: the group polynomial at x (the lost share if x existed),
\* with the matching verifying share, group key and threshold
InvRepaired ==
  (last.op = "repair3" /\ last.res.ok) =>
     /\ last.res.id = sc.x
     /\ last.res.share = EvalPow(sc.poly, sc.x)
     /\ (sc.x \in IdSet) => (last.res.share = env[<<"kp", sc.x>>].share /\ KpProj(last.res) = KpProj(env[<<"kp", sc.x>>]))
     /\ last.res.vs = last.res.share /\ last.res.vk = sc.key /\ last.res.min = sc.t

\* fewer than t helpers, duplicates, or a list without the caller are refused
InvRefused == (Planned /\ sc.scen = "bad" /\ last.op = "repair1") => ~last.res.ok

\* the repaired share signs (zero nonce / identity group commitment excepted)
Committed == IF "S" \in DOMAIN sc THEN {i \in SSet : Has(<<"non", i>>)} ELSE {}
ZeroNonce == \E i \in Committed : env[<<"non", i>>].hiding = 0 \/ env[<<"non", i>>].binding = 0
InvSignOk ==
  (last.op \in {"sign", "aggregate", "verify"} /\ ~last.res.ok) => last.res.err = "GroupError"
InvSchnorr ==
  (last.op = "aggregate" /\ last.res.ok) =>
     last.res.z = Add(last.res.R, Mul(ro[KeyH2(last.res.R, sc.key, Msg)], sc.key))

Emit == (EMIT /\ pc[1] = "done" /\ Planned) => PrintT(ToJson(Script("C11")))
=============================================================================
