-------------------------------- MODULE C09 --------------------------------
(* C09: no delivery history of keygen messages lets honest parties silently *)
(* diverge.  Two concurrent runs A and B with the same participants.  For a *)
(* participant p (acting in run A) the network fills, independently:        *)
(*   each round-one slot at part2  with the sender's contribution of run A, *)
(*                                  of run B, or nothing;                   *)
(*   each round-one slot at part3  likewise (the map is supplied again);    *)
(*   each round-two slot           with any package that sender produced in *)
(*                                  either run for any addressee, or nothing*)
(* Every filling is executed.  A participant's result is a function of its  *)
(* own slots, so exhausting one participant's fillings exhausts histories;  *)
(* agreement between participants follows from InvFunctionOfR1.             *)
(*                                                                          *)
(* Observation (outside the property: an honest participant keeps one       *)
(* round-one slot per sender and hands part3 the map it handed part2): if   *)
(* part3 is given a *different* map in which a sender's contribution comes  *)
(* from a run with a higher threshold, together with that run's share,      *)
(* part3 does not re-check commitment lengths, the summed commitment is     *)
(* truncated to the first vector's length and the returned key package's    *)
(* verifying share differs from the public package's entry.  With SameR1 =  *)
(* FALSE and TB # T TLC finds that history (InvConsistent).  The slices     *)
(* with differing thresholds therefore run with SameR1 = TRUE.              *)
EXTENDS Frost, Json

CONSTANTS Shape,          \* <<n, t>> of run A
          TB,             \* threshold of the concurrent run B (may differ from run A's)
          SameR1,         \* TRUE: part3 is given the round-one map part2 was given (the API's
                          \* documented obligation); FALSE: the map supplied again may differ
          Ids,            \* identifier set
          Who,            \* set of participants to put under test
          PolyA, PolyB,   \* id -> coefficient sequence (constant term first), per run
          KA, KB,         \* proof nonces per run
          EMIT

VARIABLES pc, sc
vars == <<fvars, pc, sc>>

N == Shape[1]
T == Shape[2]
IdSeq == Sorted(Ids)
Runs == <<"A", "B">>
Poly(run) == IF run = "A" THEN PolyA ELSE PolyB
R1S(run) == "r1s" \o run
R1P(run) == "r1p" \o run
R2S(run) == "r2s" \o run
R2N(run, i) == "r2" \o run \o "from" \o ToString(i)

Init == FrostInit /\ pc = <<"part1", 1>> /\ sc = [p |-> 0]
Go(next) == pc' = IF last'.res.ok THEN next ELSE <<"done", 0>>

\* pc[2] runs over 1..2N: first run A's participants, then run B's
RunOf(k) == IF k <= N THEN "A" ELSE "B"
IdOf(k)  == IdSeq[IF k <= N THEN k ELSE k - N]

Part1 ==
  /\ pc[1] = "part1"
  /\ LET run == RunOf(pc[2])
         i == IdOf(pc[2])
         f == Poly(run)[i]
     IN ActDkg1(<<R1S(run), i>>, <<R1P(run), i>>, i, N, IF run = "A" THEN T ELSE TB, f[1], SubSeq(f, 2, Len(f)),
                IF run = "A" THEN KA ELSE KB, FALSE)
  /\ Go(IF pc[2] = 2 * N THEN <<"part2", 1>> ELSE <<"part1", pc[2] + 1>>)
  /\ UNCHANGED sc

\* everybody runs part2 honestly in both runs: this produces every round-two
\* package that exists in the system
Part2 ==
  /\ pc[1] = "part2"
  /\ LET run == RunOf(pc[2])
         i == IdOf(pc[2])
     IN ActDkg2(<<R2S(run), i>>, R2N(run, i), <<R1S(run), i>>, [l \in Ids \ {i} |-> <<R1P(run), l>>], FALSE)
  /\ Go(IF pc[2] = 2 * N THEN <<"fill", 0>> ELSE <<"part2", pc[2] + 1>>)
  /\ UNCHANGED sc

\* the network decides p's slots.  "none" = nothing delivered.
R1Choices == {"A", "B", "none"}
R2Choices(s, p) == {<<run, a>> : run \in {"A", "B"}, a \in Ids \ {s}} \cup {<<"none", 0>>}

Fill ==
  /\ pc[1] = "fill"
  /\ \E p \in Who :
       \E f2 \in [Ids \ {p} -> R1Choices], f3 \in [Ids \ {p} -> R1Choices] :
       \E g \in [Ids \ {p} -> UNION {R2Choices(s, p) : s \in Ids \ {p}}] :
          /\ \A s \in Ids \ {p} : g[s] \in R2Choices(s, p)
          /\ SameR1 => f3 = f2
          /\ sc' = [p |-> p, f2 |-> f2, f3 |-> f3, g |-> g]
  /\ pc' = <<"recv2", 0>>
  /\ UNCHANGED fvars

R1Map(f) == [s \in {x \in DOMAIN f : f[x] # "none"} |-> <<R1P(f[s]), s>>]
R2Map(g) == [s \in {x \in DOMAIN g : g[x][1] # "none"} |-> <<R2N(g[s][1], s), g[s][2]>>]

\* p's own part2 in run A on what it was given (its outputs go to fresh handles)
Recv2 ==
  /\ pc[1] = "recv2"
  /\ ActDkg2(<<"r2sX", sc.p>>, "r2Xfrom", <<R1S("A"), sc.p>>, R1Map(sc.f2), FALSE)
  /\ Go(<<"recv3", 0>>)
  /\ UNCHANGED sc

Recv3 ==
  /\ pc[1] = "recv3"
  /\ ActDkg3(<<"kp", sc.p>>, <<"pkp", sc.p>>, <<"r2sX", sc.p>>, R1Map(sc.f3), R2Map(sc.g), FALSE,
             <<"none", 0>>, <<"none", 0>>)
  /\ pc' = <<"done", 0>>
  /\ UNCHANGED sc

Next == Part1 \/ Part2 \/ Fill \/ Recv2 \/ Recv3
Spec == Init /\ [][Next]_vars

-----------------------------------------------------------------------------
(* Properties *)

EvalPow(c, x) == SumSeq([k \in 1..Len(c) |-> Mul(c[k], Pow(x, k - 1))])
Completed == pc[1] = "done" /\ last.op = "dkg3" /\ last.res.ok
p == sc.p
\* the run whose round-one contribution is filed for sender s at part3 (own: A)
FiledRun(s) == IF s = p THEN "A" ELSE sc.f3[s]
FiledPoly(s) == Poly(FiledRun(s))[s]

\* (I1) a completed step yields internally consistent key material
InvConsistent ==
  Completed =>
     LET kp == last.res.kp
         pk == last.res.pkp
     IN /\ kp.id = p /\ kp.vs = kp.share /\ kp.vk = pk.vk /\ pk.vs[p] = kp.vs
        /\ kp.min = T /\ pk.min = T /\ DOMAIN pk.vs = Ids

\* (I2) the public package and the share are functions of the round-one set the
\* participant completed on (own contribution included): two participants that
\* complete on one common set therefore hold the same public package and shares
\* of one polynomial, the sum of the filed polynomials
InvFunctionOfR1 ==
  Completed =>
     /\ \A s \in Ids \ {p} : sc.f3[s] # "none"
     /\ last.res.pkp.vk = SumOver(Ids, LAMBDA s : FiledPoly(s)[1])
     /\ \A j \in Ids : last.res.pkp.vs[j] = SumOver(Ids, LAMBDA s : EvalPow(FiledPoly(s), j))
     /\ last.res.kp.share = SumOver(Ids, LAMBDA s : EvalPow(FiledPoly(s), p))

\* (I3) an accepted round-two share has the value the filed round-one
\* contribution of the same sender prescribes for this recipient; structurally:
\* it was addressed to p and belongs to the filed run, or it coincides in value
InvAcceptedShares ==
  Completed =>
     \A s \in Ids \ {p} :
        /\ sc.g[s][1] # "none"
        /\ EvalPow(Poly(sc.g[s][1])[s], sc.g[s][2]) = EvalPow(FiledPoly(s), p)

GenAccept == /\ \A s \in Ids \ {p} : sc.f2[s] # "none" /\ sc.f3[s] # "none"
             /\ \A s \in Ids \ {p} : sc.g[s] = <<sc.f3[s], p>>
             \* a contribution of a run with another threshold has another commitment length
             /\ \A s \in Ids \ {p} : (sc.f2[s] = "B" \/ sc.f3[s] = "B") => TB = T

\* structurally valid histories always complete (no exception)
InvGenSound == (pc[1] = "done" /\ "g" \in DOMAIN sc /\ GenAccept) => Completed

Emit == (EMIT /\ pc[1] = "done" /\ "g" \in DOMAIN sc) =>
   PrintT(ToJson(Script("C09") @@ [probe |-> "fill", gen_accept |-> GenAccept, accepted |-> Completed]))
=============================================================================
