-------------------------------- MODULE C05 --------------------------------
(* C05: a signature share is bound to one message, one commitment set and   *)
(* one signer set.  Two concurrent sessions A and B of the same signers over*)
(* the same key (plus a second group key K2), then exactly one *probe*:     *)
(*   xsess   verify a share of session X against the package of session Y   *)
(*   mix     aggregate A's package with every slot filled from A or from B  *)
(*   msg     A's commitments with another message                           *)
(*   comm    one participant's hiding / binding commitment replaced         *)
(*   drop    one participant removed from the package                       *)
(*   add     one more participant added to the package                      *)
(*   vk      another group key                                              *)
(*   id      another claimed identifier                                     *)
(*   own     sign() with the signer's own entry missing / different         *)
(*   ident   a package containing an identity commitment                    *)
(*   relabel a share filed under an identifier outside the package          *)
(* Each step carries `gen`, the structural (provenance-level) prediction;   *)
(* where the exact outcome differs from it the toy field produced a         *)
(* coincidence, which the driver counts and bounds.                         *)
EXTENDS Frost, Json

CONSTANTS Shapes, IdSets, KeyChoices, Key2Choices, CoeffChoices, RandChoices, MsgA, MsgB,
          MaxExtra, Probes, CommDeltas,
          CoordPkps,     \* the coordinator's public key package: subset of {"current", "legacy"} (legacy: the
                         \* pre-3.0 form that records no threshold)
          EMIT

VARIABLES pc, sc
vars == <<fvars, pc, sc>>

PKP  == <<"pkp", 0>>
PKP2 == <<"pkp2", 0>>
PKGA == <<"pkgA", 0>>
PKGB == <<"pkgB", 0>>
PKGX == <<"pkgX", 0>>

Init == FrostInit /\ pc = <<"keygen", 0>> /\ sc = [n |-> 0]
Go(next) == pc' = IF last'.res.ok THEN next ELSE <<"done", 0>>
SSet == {sc.S[k] : k \in DOMAIN sc.S}
IdSet == {sc.ids[k] : k \in 1..sc.n}
LastK(k) == k = Len(sc.S)

KeyGen ==
  /\ pc[1] = "keygen"
  /\ \E sh \in Shapes, I \in IdSets, key \in KeyChoices :
       /\ Card(I) = sh[1]
       /\ \E cs \in SeqsOf(CoeffChoices, sh[2] - 1) :
            /\ ActSplit("ss", PKP, key, sh[1], sh[2], Sorted(I), TRUE, cs)
            /\ \E ck \in CoordPkps :
                 sc' = [n |-> sh[1], t |-> sh[2], ids |-> Sorted(I), key |-> key, cs |-> cs, coord |-> ck]
  /\ Go(<<"mkleg", 0>>)

CPKP == IF sc.coord = "legacy" THEN <<"pkpLeg", 0>> ELSE PKP
MkLegacy ==
  /\ pc[1] = "mkleg"
  /\ IF sc.coord = "legacy" THEN ActLieMin(<<"pkpLeg", 0>>, PKP, -1) ELSE UNCHANGED fvars
  /\ pc' = <<"keygen2", 0>>
  /\ UNCHANGED sc

KeyGen2 ==
  /\ pc[1] = "keygen2"
  /\ \E key2 \in Key2Choices :
       /\ key2 # sc.key
       /\ ActSplit("ssK2", PKP2, key2, sc.n, sc.t, sc.ids, TRUE, sc.cs)
  /\ Go(<<"kp", 1>>)
  /\ UNCHANGED sc

MakeKp ==
  /\ pc[1] = "kp"
  /\ LET i == sc.ids[pc[2]] IN ActKpFromSs(<<"kp", i>>, <<"ss", i>>)
  /\ Go(IF pc[2] = sc.n THEN <<"choose", 0>> ELSE <<"kp", pc[2] + 1>>)
  /\ UNCHANGED sc

Choose ==
  /\ pc[1] = "choose"
  /\ \E S \in SUBSET IdSet :
       /\ Card(S) >= sc.t /\ Card(S) <= sc.t + MaxExtra
       /\ sc' = sc @@ [S |-> Sorted(S)]
  /\ pc' = <<"commitA", 1>>
  /\ UNCHANGED fvars

DoCommit(ph, nn, cn, next) ==
  /\ pc[1] = ph
  /\ LET i == sc.S[pc[2]] IN
       \E b1 \in RandChoices, b2 \in RandChoices :
          ActCommit(<<nn, i>>, <<cn, i>>, <<"kp", i>>, b1, b2)
  /\ Go(IF LastK(pc[2]) THEN next ELSE <<ph, pc[2] + 1>>)
  /\ UNCHANGED sc

DoPackage(ph, pkgh, cn, msg, next) ==
  /\ pc[1] = ph
  /\ ActPackage(pkgh, msg, [i \in SSet |-> <<cn, i>>])
  /\ Go(next)
  /\ UNCHANGED sc

DoSign(ph, zn, pkgh, nn, next) ==
  /\ pc[1] = ph
  /\ LET i == sc.S[pc[2]] IN ActSign(<<zn, i>>, pkgh, <<nn, i>>, <<"kp", i>>)
  /\ Go(IF LastK(pc[2]) THEN next ELSE <<ph, pc[2] + 1>>)
  /\ UNCHANGED sc

-----------------------------------------------------------------------------
(* probes: sc.probe records what was chosen; multi-step probes use pc[2]    *)

Z(X, i) == <<"z" \o X, i>>
PkgOf(X) == IF X = "A" THEN PKGA ELSE PKGB

ChooseProbe ==
  /\ pc[1] = "probe"
  /\ \E pr \in Probes :
       \/ /\ pr = "xsess"
          /\ \E X \in {"A", "B"}, Y \in {"A", "B"}, i \in SSet :
               sc' = sc @@ [probe |-> [kind |-> pr, X |-> X, Y |-> Y, i |-> i]]
       \/ /\ pr = "mix"
          /\ \E f \in [SSet -> {"A", "B"}] :
               sc' = sc @@ [probe |-> [kind |-> pr, f |-> f]]
       \/ /\ pr = "msg"
          /\ \E i \in SSet : sc' = sc @@ [probe |-> [kind |-> pr, i |-> i]]
       \/ /\ pr = "comm"
          /\ \E j \in SSet, i \in SSet, w \in {"D", "E", "swap", "fromB"}, d \in CommDeltas :
               /\ (w \in {"swap", "fromB"}) => d = Min(CommDeltas)
               /\ sc' = sc @@ [probe |-> [kind |-> pr, j |-> j, i |-> i, w |-> w, d |-> d]]
       \/ /\ pr = "drop"
          /\ Card(SSet) >= 2
          /\ \E j \in SSet, i \in SSet : j # i /\ sc' = sc @@ [probe |-> [kind |-> pr, j |-> j, i |-> i]]
       \/ /\ pr = "add"
          /\ \E x \in IdSet \ SSet, i \in SSet : sc' = sc @@ [probe |-> [kind |-> pr, x |-> x, i |-> i]]
       \/ /\ pr = "vk"
          /\ \E i \in SSet : sc' = sc @@ [probe |-> [kind |-> pr, i |-> i]]
       \/ /\ pr = "id"
          /\ \E i \in SSet, j \in SSet, vsj \in BOOLEAN :
               j # i /\ sc' = sc @@ [probe |-> [kind |-> pr, i |-> i, j |-> j, vsj |-> vsj]]
       \/ /\ pr = "own"
          /\ \E i \in SSet, w \in {"missing", "D", "E", "swap", "fromB"} :
               sc' = sc @@ [probe |-> [kind |-> pr, i |-> i, w |-> w]]
       \/ /\ pr = "ident"
          /\ \E j \in SSet, i \in SSet, w \in {"identD", "identE"}, call \in {"sign", "vshare", "agg"} :
               sc' = sc @@ [probe |-> [kind |-> pr, j |-> j, i |-> i, w |-> w, call |-> call]]
       \* a share filed under an identifier that is not in the package (same number of shares)
       \/ /\ pr = "relabel"
          /\ \E i \in SSet, x \in (IdSet \ SSet) \cup {CHOOSE u \in ZqNZ : u \notin IdSet},
                mode \in {"Disabled", "FirstCheater", "AllCheaters"} :
               sc' = sc @@ [probe |-> [kind |-> pr, i |-> i, x |-> x, mode |-> mode]]
  /\ pc' = <<"p1", 0>>
  /\ UNCHANGED fvars

PR == sc.probe
Done == pc' = <<"done", 0>>
SlotsA == [i \in SSet |-> <<"commA", i>>]
SharesA == [i \in SSet |-> <<"zA", i>>]

\* step 1 of a probe
Probe1 ==
  /\ pc[1] = "p1"
  /\ UNCHANGED sc
  /\ CASE PR.kind = "xsess" ->
            ActVerifyShare(PR.i, PR.i, PKP, Z(PR.X, PR.i), PkgOf(PR.Y)) /\ Done
       [] PR.kind = "mix" ->
            ActAggregate(<<"sig", 0>>, PKGA, [i \in SSet |-> Z(PR.f[i], i)], CPKP, "AllCheaters") /\ Done
       [] PR.kind = "msg" ->
            ActPackage(PKGX, MsgB, SlotsA) /\ pc' = <<"p2", 0>>
       [] PR.kind = "comm" ->
            IF PR.w = "fromB"
            THEN ActPackage(PKGX, MsgA, [SlotsA EXCEPT ![PR.j] = <<"commB", PR.j>>]) /\ pc' = <<"p3", 0>>
            ELSE ActTamperComm(<<"commX", PR.j>>, <<"commA", PR.j>>, PR.w, PR.d) /\ pc' = <<"p2", 0>>
       [] PR.kind = "drop" ->
            ActPackage(PKGX, MsgA, [i \in SSet \ {PR.j} |-> <<"commA", i>>]) /\ pc' = <<"p3", 0>>
       [] PR.kind = "add" ->
            (\E b1 \in RandChoices, b2 \in RandChoices :
                ActCommit(<<"nonA", PR.x>>, <<"commA", PR.x>>, <<"kp", PR.x>>, b1, b2)) /\ pc' = <<"p2", 0>>
       [] PR.kind = "vk" ->
            ActVerifyShareK(PR.i, PR.i, PKP, Z("A", PR.i), PKGA, PKP2) /\ Done
       [] PR.kind = "id" ->
            ActVerifyShare(PR.j, IF PR.vsj THEN PR.j ELSE PR.i, PKP, Z("A", PR.i), PKGA) /\ Done
       [] PR.kind = "own" ->
            IF PR.w = "missing"
            THEN ActPackage(PKGX, MsgA, [i \in SSet \ {PR.i} |-> <<"commA", i>>]) /\ pc' = <<"p3", 0>>
            ELSE IF PR.w = "fromB"
            THEN ActPackage(PKGX, MsgA, [SlotsA EXCEPT ![PR.i] = <<"commB", PR.i>>]) /\ pc' = <<"p3", 0>>
            ELSE ActTamperComm(<<"commX", PR.i>>, <<"commA", PR.i>>, PR.w, 1) /\ pc' = <<"p2", 0>>
       [] PR.kind = "ident" ->
            ActTamperComm(<<"commX", PR.j>>, <<"commA", PR.j>>, PR.w, 0) /\ pc' = <<"p2", 0>>
       [] PR.kind = "relabel" ->
            ActAggregate(<<"sig", 0>>, PKGA, (PR.x :> Z("A", PR.i)) @@ [i \in SSet \ {PR.i} |-> Z("A", i)], CPKP, PR.mode) /\ Done

\* step 2: build the substituted package
Probe2 ==
  /\ pc[1] = "p2"
  /\ UNCHANGED sc
  /\ CASE PR.kind = "msg" -> ActVerifyShare(PR.i, PR.i, PKP, Z("A", PR.i), PKGX) /\ pc' = <<"p4", 0>>
       [] PR.kind \in {"comm", "ident"} ->
            ActPackage(PKGX, MsgA, [SlotsA EXCEPT ![PR.j] = <<"commX", PR.j>>]) /\ pc' = <<"p3", 0>>
       [] PR.kind = "add" ->
            ActPackage(PKGX, MsgA, [i \in SSet \cup {PR.x} |-> <<"commA", i>>]) /\ pc' = <<"p3", 0>>
       [] PR.kind = "own" ->
            ActPackage(PKGX, MsgA, [SlotsA EXCEPT ![PR.i] = <<"commX", PR.i>>]) /\ pc' = <<"p3", 0>>

\* step 3: the call under test on the substituted package
Probe3 ==
  /\ pc[1] = "p3"
  /\ UNCHANGED sc
  /\ CASE PR.kind \in {"comm", "drop", "add"} ->
            ActVerifyShare(PR.i, PR.i, PKP, Z("A", PR.i), PKGX) /\ Done
       [] PR.kind = "own" ->
            ActSign(<<"zX", PR.i>>, PKGX, <<"nonA", PR.i>>, <<"kp", PR.i>>) /\ Done
       [] PR.kind = "ident" ->
            (CASE PR.call = "sign" -> ActSign(<<"zX", PR.i>>, PKGX, <<"nonA", PR.i>>, <<"kp", PR.i>>)
               [] PR.call = "vshare" -> ActVerifyShare(PR.i, PR.i, PKP, Z("A", PR.i), PKGX)
               [] PR.call = "agg" -> ActAggregate(<<"sig", 0>>, PKGX, SharesA, CPKP, "FirstCheater")) /\ Done

\* step 4 (msg probe): aggregation of A's shares under the other message
Probe4 ==
  /\ pc[1] = "p4"
  /\ UNCHANGED sc
  /\ ActAggregate(<<"sig", 0>>, PKGX, SharesA, CPKP, "AllCheaters") /\ Done

Next == MkLegacy \/ KeyGen \/ KeyGen2 \/ MakeKp \/ Choose
        \/ DoCommit("commitA", "nonA", "commA", <<"commitB", 1>>)
        \/ DoCommit("commitB", "nonB", "commB", <<"packageA", 0>>)
        \/ DoPackage("packageA", PKGA, "commA", MsgA, <<"packageB", 0>>)
        \/ DoPackage("packageB", PKGB, "commB", MsgB, <<"signA", 1>>)
        \/ DoSign("signA", "zA", PKGA, "nonA", <<"signB", 1>>)
        \/ DoSign("signB", "zB", PKGB, "nonB", <<"probe", 0>>)
        \/ ChooseProbe \/ Probe1 \/ Probe2 \/ Probe3 \/ Probe4

Spec == Init /\ [][Next]_vars

-----------------------------------------------------------------------------
(* Properties *)

Probing == "probe" \in DOMAIN sc
SamePkg(a, b) == env[a].msg = env[b].msg /\ env[a].comms = env[b].comms

\* structural prediction for the call under test: TRUE = must be accepted,
\* FALSE = must be rejected (unless the toy field produces a coincidence)
GenAccept ==
  CASE PR.kind = "xsess" -> PR.X = PR.Y \/ (SamePkg(PKGA, PKGB) /\ env[Z("A", PR.i)] = env[Z("B", PR.i)])
    [] PR.kind = "mix"   -> \A i \in SSet : PR.f[i] = "A" \/ env[Z("B", i)] = env[Z("A", i)]
    [] OTHER -> FALSE

\* sign() refuses when its own entry is missing or differs, and any call
\* refuses a package with an identity commitment -- exactly, no coincidence
OwnDiffers == <<env[PKGX].comms[PR.i].D, env[PKGX].comms[PR.i].E>> # <<env[<<"nonA", PR.i>>].D, env[<<"nonA", PR.i>>].E>>
InvRefusals ==
  (Probing /\ pc[1] = "done" /\ PR.kind \in {"own", "ident", "relabel"}) =>
     /\ (PR.kind \in {"ident", "relabel"}) => ~last.res.ok
     /\ (PR.kind = "own" /\ PR.w = "missing" /\ last.op = "sign") =>
            /\ ~last.res.ok
            /\ last.res.err \in {"MissingCommitment", "IncorrectNumberOfCommitments"}
     /\ (PR.kind = "own" /\ PR.w # "missing" /\ last.op = "sign" /\ OwnDiffers) =>
            /\ ~last.res.ok
            /\ last.res.err = "IncorrectCommitment"

\* a structurally valid use is always accepted (no exception)
InvGenSound ==
  (Probing /\ pc[1] = "done" /\ PR.kind \in {"xsess", "mix"} /\ GenAccept) => last.res.ok

\* a foreign share can only be accepted through a value coincidence: the share
\* given equals the share an honest signer would have produced for the package
\* and key it is verified against (recomputed from the signer's secrets)
HonestFor(pkgh, vk, i) ==
  LET pkg == env[pkgh]
      b == BindingFactors(ro, pkg, vk)
      R == GroupCommit(pkg, b.rho)
      c == ro[KeyH2(R, vk, pkg.msg)]
      lam == Lagrange(DOMAIN pkg.comms, -1, i)
  IN Add(Add(pkg.comms[i].D, Mul(b.rho[i], pkg.comms[i].E)), Mul(Mul(lam, env[<<"kp", i>>].share), c))

InvForeignNeedsCoincidence ==
  (Probing /\ pc[1] = "done" /\ last.op = "verify_share" /\ last.res.ok /\ PR.kind = "xsess" /\ ~GenAccept) =>
     env[Z(PR.X, PR.i)].z = HonestFor(PkgOf(PR.Y), env[PKP].vk, PR.i)

\* the mixed aggregate names exactly the slots whose content differs from A's share
InvMixCulprits ==
  (Probing /\ pc[1] = "done" /\ PR.kind = "mix" /\ last.op = "aggregate") =>
     LET bad == {i \in SSet : env[Z(PR.f[i], i)].z # env[Z("A", i)].z}
         sumOk == SumOver(SSet, LAMBDA i : env[Z(PR.f[i], i)].z) = SumOver(SSet, LAMBDA i : env[Z("A", i)].z)
     IN IF sumOk THEN last.res.ok ELSE ~last.res.ok /\ last.res.culprits = Sorted(bad)

Emit == (EMIT /\ pc[1] = "done") =>
          PrintT(ToJson(Script("C05") @@
             (IF Probing THEN [probe |-> PR.kind, gen_accept |-> GenAccept, accepted |-> last.res.ok]
              ELSE [probe |-> "none"])))
=============================================================================
