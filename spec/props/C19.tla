-------------------------------- MODULE C19 --------------------------------
(* C19: batch verification accepts exactly the batches whose every item     *)
(* verifies.  Items are single-signer signatures under a few keys and       *)
(* messages, each optionally made invalid (altered response, altered        *)
(* commitment, wrong message, wrong key, or a complementary +d / -d pair    *)
(* whose errors cancel under equal blinders); the verifier draws one        *)
(* blinder per item.                                                        *)
EXTENDS Frost, Json

CONSTANTS Keys,          \* signing keys (non-zero)
          NonceChoices,  \* signer nonces (non-zero)
          MaxItems,
          Kinds,         \* subset of {"ok","z","R","msg","key"}
          Blinders,      \* blinder values
          BigPlans,      \* explicit plans [n, ks, kd, ds] for large batches (n > MaxItems): sizes up to 65
          EMIT

VARIABLES pc, sc
vars == <<fvars, pc, sc>>
KeySeq == Sorted(Keys)
Init == FrostInit /\ pc = <<"keys", 1>> /\ sc = [n |-> 0]

MkKeys ==
  /\ pc[1] = "keys"
  /\ ActMkSk(<<"sk", pc[2]>>, KeySeq[pc[2]])
  /\ pc' = IF pc[2] = Len(KeySeq) THEN <<"plan", 0>> ELSE <<"keys", pc[2] + 1>>
  /\ UNCHANGED sc

\* batch size and, per item, signer key, kind of defect and offset
Plan ==
  /\ pc[1] = "plan"
  /\ \E n \in 0..MaxItems :
       \E ks \in [1..n -> 1..Len(KeySeq)], kd \in [1..n -> Kinds], ds \in [1..n -> {1, Q - 1}] :
          /\ \A j \in 1..n : (kd[j] \notin {"z", "R"}) => ds[j] = 1
          /\ sc' = [n |-> n, ks |-> ks, kd |-> kd, ds |-> ds]
  /\ pc' = IF sc'.n = 0 THEN <<"batch", 0>> ELSE <<"sign", 1>>
  /\ UNCHANGED fvars

\* large batches: one plan each, a fixed (pairwise different) blinder vector
PlanBig ==
  /\ pc[1] = "plan"
  /\ \E pl \in BigPlans : sc' = pl
  /\ pc' = <<"sign", 1>>
  /\ UNCHANGED fvars

MsgOf(k) == <<100 + k>>

SignItem ==
  /\ pc[1] = "sign"
  /\ \E k \in NonceChoices : ActSingleSign(<<"sig", pc[2]>>, <<"sk", sc.ks[pc[2]]>>, 0, k, MsgOf(pc[2]))
  /\ pc' = <<"spoil", pc[2]>>
  /\ UNCHANGED sc

Spoil ==
  /\ pc[1] = "spoil"
  /\ UNCHANGED sc
  /\ LET j == pc[2] IN
     CASE sc.kd[j] = "z" -> ActTamperSig(<<"sig", j>>, <<"sig", j>>, "z", sc.ds[j])
       [] sc.kd[j] = "R" -> ActTamperSig(<<"sig", j>>, <<"sig", j>>, "R", sc.ds[j])
       [] OTHER -> UNCHANGED fvars
  /\ pc' = IF pc[2] = sc.n THEN <<"batch", 0>> ELSE <<"sign", pc[2] + 1>>

\* the item as queued: wrong message / wrong key are defects of the claim, not of the signature
OtherKey(k) == IF k = Len(KeySeq) THEN 1 ELSE k + 1
Item(j) == [vk  |-> <<"sk", IF sc.kd[j] = "key" THEN OtherKey(sc.ks[j]) ELSE sc.ks[j]>>,
            sig |-> <<"sig", j>>,
            msg |-> IF sc.kd[j] = "msg" THEN <<0>> ELSE MsgOf(j)]

Batch ==
  /\ pc[1] = "batch"
  /\ IF sc.n <= MaxItems
     THEN \E bl \in SeqsOf(Blinders, sc.n) : ActBatch([j \in 1..sc.n |-> Item(j)], bl)
     ELSE ActBatch([j \in 1..sc.n |-> Item(j)], [j \in 1..sc.n |-> (j % (Q - 1)) + 1])
  /\ pc' = <<"done", 0>>
  /\ UNCHANGED sc

Next == MkKeys \/ Plan \/ PlanBig \/ SignItem \/ Spoil \/ Batch
Spec == Init /\ [][Next]_vars

-----------------------------------------------------------------------------
(* Properties *)

AtEnd == pc[1] = "done" /\ last.op = "batch"
\* validity of each queued item by the plain single-signature equation
ItemVal(j) == LET it == Item(j) IN
  [vk |-> env[it.vk].vk, sig |-> env[it.sig], msg |-> it.msg]
Valid(j) == LET v == ItemVal(j) IN
  ~IsIdent(v.sig.R) /\ SchnorrHolds(v.sig.R, v.sig.z, ro[KeyH2(v.sig.R, v.vk, v.msg)], v.vk)
NoIdentR == \A j \in 1..sc.n : ~IsIdent(env[<<"sig", j>>].R)

\* the empty batch is rejected; a batch of valid items is accepted whatever the blinders
InvAccept ==
  AtEnd => /\ (sc.n = 0) => ~last.res.ok
           /\ (sc.n > 0 /\ NoIdentR /\ \A j \in 1..sc.n : Valid(j)) => last.res.ok

\* single-item verification agrees with ordinary verification
InvSingles ==
  (AtEnd /\ "singles" \in DOMAIN last.res) => \A j \in 1..sc.n : last.res.singles[j] = Valid(j)

\* a batch with an invalid item is rejected for all but a 1/q fraction of the
\* verifier's blinder vectors -- counted over the whole blinder space, so it
\* covers crafted cancelling pairs too (they pass only if blinders repeat)
AcceptingVectors ==
  LET items == [j \in 1..sc.n |-> ItemVal(j)]
      errs == [j \in 1..sc.n |-> ItemError(items[j], ro[KeyH2(items[j].sig.R, items[j].vk, items[j].msg)])]
  IN Cardinality({b \in SeqsOf(Zq, sc.n) : SumSeq([j \in 1..sc.n |-> Mul(b[j], errs[j])]) = 0})
RECURSIVE IPow(_,_)
IPow(a, k) == IF k = 0 THEN 1 ELSE a * IPow(a, k - 1)
InvSoundness ==
  (AtEnd /\ sc.n > 0 /\ sc.n <= MaxItems /\ NoIdentR /\ \E j \in 1..sc.n : ~Valid(j)) => AcceptingVectors = IPow(Q, sc.n - 1)

Emit == (EMIT /\ pc[1] = "done") =>
   PrintT(ToJson(Script("C19") @@ [probe |-> "batch",
            gen_accept |-> (sc.n > 0 /\ \A j \in 1..sc.n : sc.kd[j] = "ok"), accepted |-> last.res.ok]))
=============================================================================
