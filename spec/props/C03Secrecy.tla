----------------------------- MODULE C03Secrecy -----------------------------
(* Counting statement behind "interpolating fewer than threshold-many       *)
(* shares does not yield the group secret": for a sharing polynomial of     *)
(* degree exactly t-1 whose t-1 upper coefficients are all free, the shares *)
(* of any k < t holders are perfectly independent of the secret: for every  *)
(* secret, every value is hit by the same number q^(t-1-k) of coefficient   *)
(* vectors.  A polynomial of lower degree (a coefficient fixed or repeated) *)
(* makes the counts unequal and the ASSUME fail.  Checked by TLC for every  *)
(* identifier set of the given size.                                        *)
EXTENDS FrostField, TLC

CONSTANTS T,        \* threshold
          IdPool    \* identifiers to draw coalitions from

Coalitions == {K \in SUBSET IdPool : Cardinality(K) >= 1 /\ Cardinality(K) < T}

\* the coalition's view for secret s and upper coefficients cs
View(K, s, cs) == [i \in K |-> EvalPoly(<<s>> \o cs, i)]

Balanced(K) ==
  \A s1 \in Zq, s2 \in Zq :
    \A v \in [K -> Zq] :
       Cardinality({cs \in SeqsOf(Zq, T-1) : View(K, s1, cs) = v})
     = Cardinality({cs \in SeqsOf(Zq, T-1) : View(K, s2, cs) = v})

ASSUME PerfectSecrecy == \A K \in Coalitions : Balanced(K)

\* conversely any T shares determine the secret
ASSUME Determines ==
  \A K \in {K \in SUBSET IdPool : Cardinality(K) = T} :
    \A s \in Zq : \A cs \in SeqsOf(Zq, T-1) :
       Interp0(K, [i \in K |-> EvalPoly(<<s>> \o cs, i)]) = s
=============================================================================
