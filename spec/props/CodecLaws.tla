----------------------------- MODULE CodecLaws -----------------------------
(* Constant-level obligations on the codec specification, decided by TLC    *)
(* over the whole toy domain: encodings are injective (no two values share  *)
(* an encoding, the other half of "no two byte strings denote one value"),  *)
(* the commitment-list encoding is injective in the sequence of             *)
(* (identifier, hiding, binding) triples, and the binding-factor preimage   *)
(* is injective in (group key, message hash, list hash, identifier): a      *)
(* share can only be bound to one such tuple (C05).                         *)
EXTENDS FrostCodec, TLC

ASSUME ScalarInjective == \A a \in Zq, b \in Zq : ScalarBytes(a) = ScalarBytes(b) => a = b
ASSUME ElemInjective   == \A a \in ZqNZ, b \in ZqNZ : ElemBytes(a) = ElemBytes(b) => a = b
\* encodings of elements are members of the order-Q subgroup and never the identity's value 1
ASSUME ElemMembers     == \A a \in ZqNZ : ElemVal(a) # 1 /\ PowP(ElemVal(a), Q) = 1

Comms2 == [{1, 2} -> [D : 1..2, E : 1..2]]
Comms3 == UNION {[S -> [D : {1}, E : 1..2]] : S \in {{1, 2}, {1, 3}, {2, 3}, {1, 2, 3}}}
ASSUME ListInjective ==
  /\ \A c1 \in Comms2, c2 \in Comms2 : EncodeList(c1) = EncodeList(c2) => c1 = c2
  /\ \A c1 \in Comms3, c2 \in Comms3 : EncodeList(c1) = EncodeList(c2) => c1 = c2

\* ascending numeric identifier order, whatever the byte values
ASSUME ListOrder ==
  \A c \in Comms3 : LET ids == Sorted(DOMAIN c) IN
     SubSeq(EncodeList(c), 1, 2) = IdBytes(ids[1])

Tuples == (1..2) \X (0..1) \X (0..1) \X (1..3)
ASSUME PreimageInjective ==
  \A t1 \in Tuples, t2 \in Tuples :
     KeyH1(t1[1], t1[2], t1[3], t1[4]) = KeyH1(t2[1], t2[2], t2[3], t2[4]) => t1 = t2
=============================================================================
