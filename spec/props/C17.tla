-------------------------------- MODULE C17 --------------------------------
(* C17: re-randomized signing verifies only under the session-bound         *)
(* randomized key.  Dealer keys -> commit -> package -> the coordinator     *)
(* draws a randomizer seed (or fixes an explicit randomizer, zero included) *)
(* -> every participant signs with the seed it received -> aggregate with   *)
(* the coordinator's parameters in a detection mode -> verify under the     *)
(* randomized key and under the original key.  Faults: one participant      *)
(* receives a different seed, or a package in which one commitment differs; *)
(* one share is altered; fewer than t signers.                              *)
EXTENDS Frost, Json

CONSTANTS Shapes, IdSets, KeyChoices, CoeffChoices, RandChoices, Msg, MaxExtra,
          SeedChoices,      \* randomizer seeds (values encoded as 2 bytes)
          Faults,           \* subset of {"none","seed","comm","share","share2","fixed","few"}
                            \* (share2: the victim's and its neighbour's shares are both altered)
          SeedFaults,       \* how the victim's seed differs: subset of {"last","append","append0","trunc","empty"}
          FixedAlphas,      \* explicit randomizers for fault "fixed" (honest run with from_randomizer)
          Modes, EMIT

VARIABLES pc, sc
vars == <<fvars, pc, sc>>
PKP == <<"pkp", 0>>
PKG == <<"pkg", 0>>
PKGX == <<"pkgX", 0>>
RP == <<"rp", 0>>
SEED == <<"seed", 0>>
SEEDX == <<"seedX", 0>>

Init == FrostInit /\ pc = <<"keygen", 0>> /\ sc = [n |-> 0]
Go(next) == pc' = IF last'.res.ok THEN next ELSE <<"done", 0>>

KeyGen ==
  /\ pc[1] = "keygen"
  /\ \E sh \in Shapes, I \in IdSets, key \in KeyChoices :
       /\ Card(I) = sh[1]
       /\ \E cs \in SeqsOf(CoeffChoices, sh[2] - 1) :
            /\ ActSplit("ss", PKP, key, sh[1], sh[2], Sorted(I), TRUE, cs)
            /\ sc' = [n |-> sh[1], t |-> sh[2], ids |-> Sorted(I), key |-> key]
  /\ Go(<<"kp", 1>>)

MakeKp ==
  /\ pc[1] = "kp"
  /\ LET i == sc.ids[pc[2]] IN ActKpFromSs(<<"kp", i>>, <<"ss", i>>)
  /\ Go(IF pc[2] = sc.n THEN <<"choose", 0>> ELSE <<"kp", pc[2] + 1>>)
  /\ UNCHANGED sc

Choose ==
  /\ pc[1] = "choose"
  /\ \E S \in SUBSET {sc.ids[k] : k \in 1..sc.n}, f \in Faults :
       \* "few": t-1 colluding signers whose key packages claim a lower threshold
       /\ IF f = "few" THEN Card(S) = sc.t - 1 /\ Card(S) >= 1 ELSE Card(S) >= sc.t /\ Card(S) <= sc.t + MaxExtra
       /\ \E v \in S, how \in (IF f = "seed" THEN SeedFaults ELSE {"last"}) :
            sc' = sc @@ [S |-> Sorted(S), fault |-> f, victim |-> v, how |-> how]
  /\ pc' = IF sc'.fault = "few" THEN <<"lie", 1>> ELSE <<"commit", 1>>
  /\ UNCHANGED fvars

KPH(i) == IF sc.fault = "few" THEN <<"kpL", i>> ELSE <<"kp", i>>
Lie ==
  /\ pc[1] = "lie"
  /\ LET i == sc.S[pc[2]] IN ActLieMin(<<"kpL", i>>, <<"kp", i>>, Len(sc.S))
  /\ pc' = IF pc[2] = Len(sc.S) THEN <<"commit", 1>> ELSE <<"lie", pc[2] + 1>>
  /\ UNCHANGED sc

SSet == {sc.S[k] : k \in DOMAIN sc.S}
LastS(k) == k = Len(sc.S)

DoCommit ==
  /\ pc[1] = "commit"
  /\ LET i == sc.S[pc[2]] IN
       \E b1 \in RandChoices, b2 \in RandChoices : ActCommit(<<"non", i>>, <<"comm", i>>, <<"kp", i>>, b1, b2)
  /\ Go(IF LastS(pc[2]) THEN <<"package", 0>> ELSE <<"commit", pc[2] + 1>>)
  /\ UNCHANGED sc

DoPackage ==
  /\ pc[1] = "package"
  /\ ActPackage(PKG, Msg, [i \in SSet |-> <<"comm", i>>])
  /\ Go(<<"params", 0>>)
  /\ UNCHANGED sc

\* the coordinator's randomized parameters
Params ==
  /\ pc[1] = "params"
  /\ IF sc.fault = "fixed"
     THEN \E a \in FixedAlphas : ActRrFixed(RP, PKP, a)
     ELSE \E v \in SeedChoices : ActRrNew(RP, SEED, PKP, PKG, U16(v))
  /\ Go(IF sc.fault = "seed" THEN <<"badseed", 0>>
        ELSE IF sc.fault = "comm" THEN <<"badcomm", 1>>
        ELSE IF sc.fault = "fixed" THEN <<"fsign", 1>> ELSE <<"regen", 0>>)
  /\ UNCHANGED sc

\* a participant regenerates the parameters from the seed: must equal the coordinator's
Regen ==
  /\ pc[1] = "regen"
  /\ ActRrRegen(<<"rpP", 0>>, <<"kp", sc.S[1]>>, SEED, PKG)
  /\ Go(<<"sign", 1>>)
  /\ UNCHANGED sc

BadSeed ==
  /\ pc[1] = "badseed"
  /\ ActTamperSeedHow(SEEDX, SEED, sc.how, 1)
  /\ pc' = <<"sign", 1>>
  /\ UNCHANGED sc

\* the victim is shown a package in which its neighbour's binding commitment differs
Neighbour == IF sc.victim = sc.S[1] THEN sc.S[Len(sc.S)] ELSE sc.S[1]
BadComm ==
  /\ pc[1] = "badcomm"
  /\ UNCHANGED sc
  /\ IF pc[2] = 1 THEN ActTamperComm(<<"commX", Neighbour>>, <<"comm", Neighbour>>, "E", 1) /\ pc' = <<"badcomm", 2>>
     ELSE ActPackage(PKGX, Msg, [[i \in SSet |-> <<"comm", i>>] EXCEPT ![Neighbour] = <<"commX", Neighbour>>])
          /\ pc' = <<"sign", 1>>

DoSign ==
  /\ pc[1] = "sign"
  /\ LET i == sc.S[pc[2]]
         seed == IF sc.fault = "seed" /\ i = sc.victim THEN SEEDX ELSE SEED
         pkg == IF sc.fault = "comm" /\ i = sc.victim THEN PKGX ELSE PKG
     IN ActRrSign(<<"z", i>>, pkg, <<"non", i>>, KPH(i), seed)
  /\ Go(IF LastS(pc[2]) THEN (IF sc.fault \in {"share", "share2"} THEN <<"badshare", 0>> ELSE <<"agg", 1>>) ELSE <<"sign", pc[2] + 1>>)
  /\ UNCHANGED sc

\* explicit randomizer: participants use the deprecated sign-with-randomizer path,
\* modelled as signing with the randomized key package
FSign ==
  /\ pc[1] = "fsign"
  /\ LET i == sc.S[pc[2]] IN ActRrSignFixed(<<"z", i>>, PKG, <<"non", i>>, <<"kp", i>>, RP)
  /\ Go(IF LastS(pc[2]) THEN <<"agg", 1>> ELSE <<"fsign", pc[2] + 1>>)
  /\ UNCHANGED sc

BadShare ==
  /\ pc[1] = "badshare"
  /\ IF pc[2] = 0 THEN ActTamperShare(<<"z", sc.victim>>, <<"z", sc.victim>>, "add", 1)
     ELSE ActTamperShare(<<"z", Neighbour>>, <<"z", Neighbour>>, "add", 2)
  /\ pc' = IF sc.fault = "share2" /\ pc[2] = 0 THEN <<"badshare", 1>> ELSE <<"agg", 1>>
  /\ UNCHANGED sc

DoAggregate ==
  /\ pc[1] = "agg"
  /\ ActRrAggregate(<<"sig", pc[2]>>, PKG, [i \in SSet |-> <<"z", i>>], PKP, Modes[pc[2]], RP)
  /\ pc' = IF last'.res.ok THEN <<"verifyR", pc[2]>>
           ELSE IF pc[2] = Len(Modes) THEN <<"done", 0>> ELSE <<"agg", pc[2] + 1>>
  /\ UNCHANGED sc

VerifyRandomized ==
  /\ pc[1] = "verifyR"
  /\ ActVerifyUnder(RP, Msg, <<"sig", pc[2]>>)
  /\ pc' = <<"verifyO", pc[2]>>
  /\ UNCHANGED sc

VerifyOriginal ==
  /\ pc[1] = "verifyO"
  /\ ActVerifyUnder(PKP, Msg, <<"sig", pc[2]>>)
  /\ pc' = IF pc[2] = Len(Modes) THEN <<"done", 0>> ELSE <<"agg", pc[2] + 1>>
  /\ UNCHANGED sc

Next == KeyGen \/ MakeKp \/ Choose \/ Lie \/ DoCommit \/ DoPackage \/ Params \/ Regen \/ BadSeed \/ BadComm \/ DoSign
        \/ FSign \/ BadShare \/ DoAggregate \/ VerifyRandomized \/ VerifyOriginal
Spec == Init /\ [][Next]_vars

-----------------------------------------------------------------------------
(* Properties *)

Chosen == "fault" \in DOMAIN sc
Alpha == env[RP].alpha
ModeOfLast == IF pc[1] = "verifyR" THEN Modes[pc[2]]
              ELSE IF pc[1] = "agg" THEN Modes[pc[2] - 1] ELSE Modes[Len(Modes)]

\* the participants' regenerated parameters equal the coordinator's
InvRegen == (last.op = "rr_regen" /\ last.res.ok) => RpProj(last.res) = RpProj(env[RP])

\* the randomized key is the group key offset by the randomizer
InvParams == Has(RP) => env[RP].vk2 = Add(sc.key, Alpha) /\ env[RP].alphaG = Alpha

\* what the victim's deviation amounts to: the randomizer it derived
VictimAlpha ==
  CASE sc.fault = "seed" -> ro[KeyHR(env[SEEDX].b, env[PKG].comms)]
    [] sc.fault = "comm" -> ro[KeyHR(env[SEED].b, env[PKGX].comms)]
    [] OTHER -> Alpha

\* honest runs aggregate; the signature verifies under the randomized key and,
\* for a non-zero randomizer, not under the original key (toy coincidence:
\* c * alpha = 0, i.e. a zero challenge)
InvHonest ==
  (Chosen /\ sc.fault \in {"none", "fixed"}) =>
     /\ (last.op = "aggregate") => (last.res.ok \/ last.res.err = "GroupError")
     /\ (last.op = "verify" /\ pc[1] = "verifyO") => last.res.ok          \* under the randomized key
     /\ (last.op = "verify" /\ pc[1] # "verifyO" /\ Has(RP)) =>
          LET sig == env[<<"sig", IF pc[1] = "agg" THEN pc[2] - 1 ELSE Len(Modes)>>]
              c == ro[KeyH2(sig.R, sc.key, Msg)]
          IN last.res.ok <=> (Mul(c, sc.key) = Mul(ro[KeyH2(sig.R, env[RP].vk2, Msg)], env[RP].vk2))

\* cheater identification is unchanged under randomization: a participant that
\* used another seed / commitment set, or whose share was altered, is named
InvFaulty ==
  (Chosen /\ sc.fault \in {"seed", "comm", "share"} /\ last.op = "aggregate" /\ ~last.res.ok /\ last.res.err = "InvalidSignatureShare") =>
     last.res.culprits = (IF ModeOfLast = "Disabled" THEN << >> ELSE <<sc.victim>>)
InvFaultyShare ==
  /\ (Chosen /\ sc.fault = "share" /\ last.op = "aggregate") =>
        (~last.res.ok /\ (ModeOfLast # "Disabled" => last.res.culprits = <<sc.victim>>))
  \* two altered shares (+1 and +2 do not cancel): every cheater is named by AllCheaters, the lowest by FirstCheater
  /\ (Chosen /\ sc.fault = "share2" /\ last.op = "aggregate") =>
        LET both == Sorted({sc.victim, Neighbour}) IN
        (~last.res.ok /\ (ModeOfLast = "AllCheaters" => last.res.culprits = both)
                     /\ (ModeOfLast = "FirstCheater" => last.res.culprits = <<both[1]>>))

\* fewer than t signers never obtain a signature, randomized or not
InvFew ==
  (Chosen /\ sc.fault = "few" /\ last.op = "aggregate") => (~last.res.ok /\ last.res.err = "IncorrectNumberOfShares")

Emit == (EMIT /\ pc[1] = "done" /\ Chosen) =>
   PrintT(ToJson(Script("C17") @@ [probe |-> sc.fault, gen_accept |-> (sc.fault \in {"none", "fixed"}),
                                     accepted |-> (last.op = "verify")]))
=============================================================================
