-------------------------------- MODULE C07 --------------------------------
(* C07: honest distributed key generation ends with one group key and       *)
(* matching shares.  Every participant runs part1, part2, part3 with        *)
(* perfect delivery; then a signer set of at least t participants signs.    *)
EXTENDS Frost, Json

CONSTANTS Shapes, IdSets, A0Choices, CoeffChoices, KChoices, RandChoices, Msg, MaxExtra,
          SweepSigners,   \* shape sweeps: only the t smallest and the t largest identifiers sign
          EMIT

VARIABLES pc, sc
vars == <<fvars, pc, sc>>

Init == FrostInit /\ pc = <<"setup", 0>> /\ sc = [n |-> 0]
Go(next) == pc' = IF last'.res.ok THEN next ELSE <<"done", 0>>
IdSet == {sc.ids[k] : k \in 1..sc.n}
R2N == [i \in 1..16 |-> "r2from" \o ToString(i)]     \* name of the round-two packages sent by i

Setup ==
  /\ pc[1] = "setup"
  /\ \E sh \in Shapes, I \in IdSets :
       /\ Card(I) = sh[1]
       /\ sc' = [n |-> sh[1], t |-> sh[2], ids |-> Sorted(I), poly |-> << >>]
  /\ pc' = <<"part1", 1>>
  /\ UNCHANGED fvars

Part1 ==
  /\ pc[1] = "part1"
  /\ LET i == sc.ids[pc[2]] IN
       \E a0 \in A0Choices, k \in KChoices : \E cs \in SeqsOf(CoeffChoices, sc.t - 1) :
          /\ ActDkg1(<<"r1s", i>>, <<"r1p", i>>, i, sc.n, sc.t, a0, cs, k, FALSE)
          /\ sc' = [sc EXCEPT !.poly = (i :> (<<a0>> \o cs)) @@ @]
  /\ Go(IF pc[2] = sc.n THEN <<"part2", 1>> ELSE <<"part1", pc[2] + 1>>)

Part2 ==
  /\ pc[1] = "part2"
  /\ LET i == sc.ids[pc[2]] IN
       ActDkg2(<<"r2s", i>>, R2N[i], <<"r1s", i>>, [l \in IdSet \ {i} |-> <<"r1p", l>>], FALSE)
  /\ Go(IF pc[2] = sc.n THEN <<"part3", 1>> ELSE <<"part2", pc[2] + 1>>)
  /\ UNCHANGED sc

Part3 ==
  /\ pc[1] = "part3"
  /\ LET i == sc.ids[pc[2]] IN
       ActDkg3(<<"kp", i>>, <<"pkp", i>>, <<"r2s", i>>, [l \in IdSet \ {i} |-> <<"r1p", l>>],
               [l \in IdSet \ {i} |-> <<R2N[l], i>>], FALSE, <<"none", 0>>, <<"none", 0>>)
  /\ Go(IF pc[2] = sc.n THEN <<"choose", 0>> ELSE <<"part3", pc[2] + 1>>)
  /\ UNCHANGED sc

Choose ==
  /\ pc[1] = "choose"
  /\ \E S \in SUBSET IdSet :
       /\ Card(S) >= sc.t /\ Card(S) <= sc.t + MaxExtra
       /\ SweepSigners => S \in {{sc.ids[k] : k \in 1..sc.t}, {sc.ids[k] : k \in (sc.n - sc.t + 1)..sc.n}}
       /\ sc' = sc @@ [S |-> Sorted(S)]
  /\ pc' = <<"commit", 1>>
  /\ UNCHANGED fvars

SSet == {sc.S[k] : k \in DOMAIN sc.S}
LastK(k) == k = Len(sc.S)
PKG == <<"pkg", 0>>
SIG == <<"sig", 0>>
\* the coordinator is the first signer and uses its own copy of the public package
CoordPkp == <<"pkp", sc.S[1]>>

DoCommit ==
  /\ pc[1] = "commit"
  /\ LET i == sc.S[pc[2]] IN
       \E b1 \in RandChoices, b2 \in RandChoices : ActCommit(<<"non", i>>, <<"comm", i>>, <<"kp", i>>, b1, b2)
  /\ Go(IF LastK(pc[2]) THEN <<"package", 0>> ELSE <<"commit", pc[2] + 1>>)
  /\ UNCHANGED sc

DoPackage ==
  /\ pc[1] = "package"
  /\ ActPackage(PKG, Msg, [i \in SSet |-> <<"comm", i>>])
  /\ Go(<<"sign", 1>>)
  /\ UNCHANGED sc

DoSign ==
  /\ pc[1] = "sign"
  /\ LET i == sc.S[pc[2]] IN ActSign(<<"z", i>>, PKG, <<"non", i>>, <<"kp", i>>)
  /\ Go(IF LastK(pc[2]) THEN <<"aggregate", 0>> ELSE <<"sign", pc[2] + 1>>)
  /\ UNCHANGED sc

DoAggregate ==
  /\ pc[1] = "aggregate"
  /\ ActAggregate(SIG, PKG, [i \in SSet |-> <<"z", i>>], CoordPkp, "FirstCheater")
  /\ Go(<<"verify", 0>>)
  /\ UNCHANGED sc

DoVerify ==
  /\ pc[1] = "verify"
  /\ ActVerify(CoordPkp, Msg, SIG)
  /\ pc' = <<"done", 0>>
  /\ UNCHANGED sc

Next == Setup \/ Part1 \/ Part2 \/ Part3 \/ Choose \/ DoCommit \/ DoPackage \/ DoSign \/ DoAggregate \/ DoVerify
Spec == Init /\ [][Next]_vars

-----------------------------------------------------------------------------
(* Properties, from the participants' secret polynomials (ghost sc.poly)    *)

EvalPow(c, x) == SumSeq([k \in 1..Len(c) |-> Mul(c[k], Pow(x, k - 1))])
AllPolys  == DOMAIN sc.poly = IdSet
GroupSecret == SumOver(IdSet, LAMBDA l : sc.poly[l][1])
ShareOf(i)  == SumOver(IdSet, LAMBDA l : EvalPow(sc.poly[l], i))
Finished    == {i \in IdSet : Has(<<"kp", i>>)}

\* the three parts of an honest run never fail
InvDkgOk == (last.op \in {"dkg1", "dkg2", "dkg3"}) => last.res.ok

InvOutputs ==
  \A i \in Finished :
    LET kp == env[<<"kp", i>>]
        pk == env[<<"pkp", i>>]
    IN /\ kp.id = i /\ kp.min = sc.t /\ pk.min = sc.t
       /\ kp.share = ShareOf(i)                 \* on the sum of the polynomials
       /\ kp.vs = kp.share                      \* verifying share = G * signing share
       /\ pk.vs[i] = kp.vs                      \* = the public package's entry
       /\ kp.vk = pk.vk /\ pk.vk = GroupSecret  \* group key = sum of constant-term commitments
       /\ DOMAIN pk.vs = IdSet
       /\ \A j \in IdSet : pk.vs[j] = ShareOf(j)
       /\ \A j \in Finished : env[<<"pkp", j>>] = pk      \* identical public packages

\* signing afterwards: C01's statement for DKG keys
Committed == IF "S" \in DOMAIN sc THEN {i \in SSet : Has(<<"non", i>>)} ELSE {}
ZeroNonce == \E i \in Committed : env[<<"non", i>>].hiding = 0 \/ env[<<"non", i>>].binding = 0
RhoKnown == Has(PKG) /\ ~ZeroNonce /\ GroupSecret # 0
            /\ LET b == BindingFactors(ro, env[PKG], GroupSecret) IN ~IsNeed(b) /\ b.ok
Rho      == BindingFactors(ro, env[PKG], GroupSecret).rho
NonceSum == SumOver(SSet, LAMBDA i : Add(env[<<"non", i>>].hiding, Mul(Rho[i], env[<<"non", i>>].binding)))
Degenerate == "S" \in DOMAIN sc /\ (ZeroNonce \/ GroupSecret = 0 \/ (RhoKnown /\ NonceSum = 0))

InvSignOk == (last.op \in {"commit", "sign", "aggregate", "verify"} /\ ~last.res.ok) =>
                (Degenerate /\ last.res.err = "GroupError")
InvSchnorr ==
  (last.op = "aggregate" /\ last.res.ok) =>
     /\ last.res.R = NonceSum
     /\ last.res.z = Add(NonceSum, Mul(ro[KeyH2(last.res.R, GroupSecret, Msg)], GroupSecret))

Emit == (EMIT /\ pc[1] = "done") => PrintT(ToJson(Script("C07")))
=============================================================================
