-------------------------------- MODULE C14 --------------------------------
(* C14: untrusted protocol messages never cause a panic.  The adversary     *)
(* combines otherwise valid peer messages in inconsistent ways: maps with   *)
(* missing / surplus / unknown entries, empty containers, thresholds 0, 1   *)
(* and 65535 in peer-supplied packages, commitment vectors of every length  *)
(* 0..t+1 (at part2 and, late, at part3), duplicated and single key         *)
(* packages, helper lists that contain the repaired participant, identifier *)
(* lists that are empty, too short, duplicated or unknown; two faults in    *)
(* one message (a commitment vector of length 0..t together with a zero     *)
(* share, in a dealer share and in a late round-one/round-two pair).        *)
(* The model says  *)
(* what each call returns (a value or an error -- never anything else); the *)
(* replay and the recorded traces run under catch_unwind with overflow      *)
(* checks and debug assertions on.                                          *)
EXTENDS Frost, Json

CONSTANTS Probes, EMIT
VARIABLES pc, sc
vars == <<fvars, pc, sc>>

Ids == {2, 3, 5}
IdSeq == <<2, 3, 5>>
N == 3
T == 2
PKP == <<"pkp", 0>>
PKG == <<"pkg", 0>>
R2N == [i \in 1..16 |-> "r2from" \o ToString(i)]
Mins == {0, 1, 65535, -1}

Init == FrostInit /\ pc = <<"keygen", 0>> /\ sc = [probe |-> "none"]

\* honest prefix: dealer keys, key packages, commitments and shares of all three
Prefix ==
  \/ /\ pc[1] = "keygen" /\ ActSplit("ss", PKP, 3, N, T, IdSeq, TRUE, <<5>>) /\ pc' = <<"kp", 1>> /\ UNCHANGED sc
  \/ /\ pc[1] = "kp" /\ ActKpFromSs(<<"kp", IdSeq[pc[2]]>>, <<"ss", IdSeq[pc[2]]>>)
     /\ pc' = (IF pc[2] = N THEN <<"commit", 1>> ELSE <<"kp", pc[2] + 1>>) /\ UNCHANGED sc
  \/ /\ pc[1] = "commit" /\ ActCommit(<<"non", IdSeq[pc[2]]>>, <<"comm", IdSeq[pc[2]]>>, <<"kp", IdSeq[pc[2]]>>, pc[2], pc[2] + 5)
     /\ pc' = (IF pc[2] = N THEN <<"package", 0>> ELSE <<"commit", pc[2] + 1>>) /\ UNCHANGED sc
  \/ /\ pc[1] = "package" /\ ActPackage(PKG, <<1, 2>>, [i \in Ids |-> <<"comm", i>>]) /\ pc' = <<"sign", 1>> /\ UNCHANGED sc
  \/ /\ pc[1] = "sign" /\ ActSign(<<"z", IdSeq[pc[2]]>>, PKG, <<"non", IdSeq[pc[2]]>>, <<"kp", IdSeq[pc[2]]>>)
     /\ pc' = (IF ~last'.res.ok THEN <<"done", 0>> ELSE IF pc[2] = N THEN <<"dkg1", 1>> ELSE <<"sign", pc[2] + 1>>) /\ UNCHANGED sc
  \/ /\ pc[1] = "dkg1" /\ ActDkg1(<<"r1s", IdSeq[pc[2]]>>, <<"r1p", IdSeq[pc[2]]>>, IdSeq[pc[2]], N, T, pc[2], <<pc[2] + 2>>, 2, FALSE)
     /\ pc' = (IF pc[2] = N THEN <<"dkg2", 1>> ELSE <<"dkg1", pc[2] + 1>>) /\ UNCHANGED sc
  \/ /\ pc[1] = "dkg2"
     /\ LET i == IdSeq[pc[2]] IN ActDkg2(<<"r2s", i>>, R2N[i], <<"r1s", i>>, [j \in Ids \ {i} |-> <<"r1p", j>>], FALSE)
     /\ pc' = (IF pc[2] = N THEN <<"probe", 0>> ELSE <<"dkg2", pc[2] + 1>>) /\ UNCHANGED sc

AllShares == [i \in Ids |-> <<"z", i>>]
Without(f, k) == [x \in DOMAIN f \ {k} |-> f[x]]

Choose ==
  /\ pc[1] = "probe"
  /\ \E pr \in Probes :
       \/ /\ pr = "agg_maps"
          /\ \E v \in {"missing", "extra", "empty", "swapped", "full"}, m \in Mins \cup {2}, mode \in {"Disabled", "FirstCheater", "AllCheaters"} :
               sc' = [probe |-> pr, v |-> v, m |-> m, mode |-> mode]
       \/ /\ pr = "sign_kp"
          /\ \E m \in {0, 1, 65535, 2}, slots \in {{2}, {2, 3}, {3, 5}, Ids} : sc' = [probe |-> pr, m |-> m, slots |-> slots]
       \/ /\ pr = "vshare"
          /\ \E id \in {2, 6}, vsid \in Ids : sc' = [probe |-> pr, id |-> id, vsid |-> vsid]
       \/ /\ pr = "dkg_lens"
          /\ \E w \in {"empty", "trunc", "extend"}, late \in BOOLEAN, z \in BOOLEAN :
               (z => late) /\ sc' = [probe |-> pr, w |-> w, late |-> late, zero |-> z]
       \/ /\ pr = "ss_double"
          /\ \E nt \in 0..2, z \in BOOLEAN : sc' = [probe |-> pr, nt |-> nt, zero |-> z]
       \/ /\ pr = "recon"
          /\ \E ks \in {<<2>>, <<2, 2>>, <<2, 3, 2>>, <<2, 3, 5>>, << >>}, m \in {0, 1, 65535, 2} : sc' = [probe |-> pr, ks |-> ks, m |-> m]
       \/ /\ pr = "repair"
          /\ \E hs \in {<<2, 3>>, <<2, 3, 5>>, <<2, 2>>, <<3, 5>>, << >>, <<2>>}, x \in {2, 3, 6} : sc' = [probe |-> pr, hs |-> hs, x |-> x]
       \/ /\ pr = "refresh"
          /\ \E ids \in {<< >>, <<2>>, <<2, 2>>, <<2, 3, 6>>, <<2, 3>>, <<5, 3, 2>>}, m \in Mins \cup {2} : sc' = [probe |-> pr, ids |-> ids, m |-> m]
  /\ pc' = <<"p1", 0>>
  /\ UNCHANGED fvars

PR == sc.probe
Done == pc' = <<"done", 0>>
\* one more coefficient dropped from a share's commitment, or a plain copy
SsStep(out, src, trunc) == IF trunc THEN ActTamperSs(out, src, "trunc", 0, 0) ELSE ActTamperSs(out, src, "share", 0, 0)

P1 ==
  /\ pc[1] = "p1"
  /\ UNCHANGED sc
  /\ CASE PR = "agg_maps" -> ActLieMin(<<"pkpL", 0>>, PKP, sc.m) /\ pc' = <<"p2", 0>>
       [] PR = "sign_kp"  -> ActLieMin(<<"kpL", 2>>, <<"kp", 2>>, sc.m) /\ pc' = <<"p2", 0>>
       [] PR = "vshare"   -> ActVerifyShare(sc.id, sc.vsid, PKP, <<"z", 2>>, PKG) /\ Done
       [] PR = "dkg_lens" -> ActTamperR1(<<"r1x", 3>>, <<"r1p", 3>>, sc.w, 0, 4) /\ pc' = <<"p2", 0>>
       [] PR = "recon"    -> ActLieMin(<<"kpL", 2>>, <<"kp", 2>>, sc.m) /\ pc' = <<"p2", 0>>
       [] PR = "repair"   -> (\E ds \in SeqsOf({4}, RepairDraws(sc.hs, env[<<"kp", 2>>])) : ActRepair1("d", sc.hs, <<"kp", 2>>, ds, sc.x)) /\ Done
       [] PR = "refresh"  -> ActLieMin(<<"pkpL", 0>>, PKP, sc.m) /\ pc' = <<"p2", 0>>
       [] PR = "ss_double" -> SsStep(<<"ssA", 2>>, <<"ss", 2>>, sc.nt >= 1) /\ pc' = <<"p2", 0>>

P2 ==
  /\ pc[1] = "p2"
  /\ UNCHANGED sc
  /\ CASE PR = "agg_maps" ->
            (CASE sc.v = "missing" -> ActAggregate(<<"sig", 0>>, PKG, Without(AllShares, 5), <<"pkpL", 0>>, sc.mode)
               [] sc.v = "extra"   -> ActAggregate(<<"sig", 0>>, PKG, (6 :> <<"z", 5>>) @@ AllShares, <<"pkpL", 0>>, sc.mode)
               [] sc.v = "swapped" -> ActAggregate(<<"sig", 0>>, PKG, (6 :> <<"z", 5>>) @@ Without(AllShares, 5), <<"pkpL", 0>>, sc.mode)
               [] sc.v = "empty"   -> ActPackage(<<"pkgE", 0>>, <<1, 2>>, << >>)
               [] sc.v = "full"    -> ActAggregate(<<"sig", 0>>, PKG, AllShares, <<"pkpL", 0>>, sc.mode))
            /\ pc' = IF sc.v = "empty" THEN <<"p3", 0>> ELSE <<"done", 0>>
       [] PR = "sign_kp" -> ActPackage(<<"pkgS", 0>>, <<1, 2>>, [i \in sc.slots |-> <<"comm", i>>]) /\ pc' = <<"p3", 0>>
       [] PR = "ss_double" -> SsStep(<<"ssB", 2>>, <<"ssA", 2>>, sc.nt >= 2) /\ pc' = <<"p3", 0>>
       [] PR = "dkg_lens" /\ sc.zero ->
            ActZeroR2(<<"r2z", 3>>, <<R2N[3], 2>>) /\ pc' = <<"p3", 0>>
       [] PR = "dkg_lens" /\ ~sc.zero ->
            (IF sc.late
             THEN ActDkg3(<<"kpX", 2>>, <<"pkpX", 2>>, <<"r2s", 2>>, (3 :> <<"r1x", 3>>) @@ (5 :> <<"r1p", 5>>),
                          (3 :> <<R2N[3], 2>>) @@ (5 :> <<R2N[5], 2>>), FALSE, <<"none", 0>>, <<"none", 0>>)
             ELSE ActDkg2(<<"r2sX", 2>>, "r2X", <<"r1s", 2>>, (3 :> <<"r1x", 3>>) @@ (5 :> <<"r1p", 5>>), FALSE))
            /\ Done
       [] PR = "recon" -> ActReconstruct([k \in DOMAIN sc.ks |-> IF sc.ks[k] = 2 THEN <<"kpL", 2>> ELSE <<"kp", sc.ks[k]>>]) /\ Done
       [] PR = "refresh" ->
            (\E cs \in SeqsOf({4}, RefreshDraws(env[<<"pkpL", 0>>], sc.ids)) : ActRefreshShares("zs", <<"pkpN", 0>>, <<"pkpL", 0>>, sc.ids, cs))
            /\ Done

P3 ==
  /\ pc[1] = "p3"
  /\ UNCHANGED sc
  /\ CASE PR = "agg_maps" -> ActAggregate(<<"sig", 0>>, <<"pkgE", 0>>, << >>, <<"pkpL", 0>>, sc.mode) /\ Done
       [] PR = "sign_kp"  -> ActSign(<<"zX", 2>>, <<"pkgS", 0>>, <<"non", 2>>, <<"kpL", 2>>) /\ Done
       [] PR = "ss_double" ->
            ActTamperSs(<<"ssC", 2>>, <<"ssB", 2>>, IF sc.zero THEN "zero" ELSE "share", 0, 0)
            /\ pc' = <<"p4", 0>>
       [] PR = "dkg_lens" ->
            ActDkg3(<<"kpX", 2>>, <<"pkpX", 2>>, <<"r2s", 2>>, (3 :> <<"r1x", 3>>) @@ (5 :> <<"r1p", 5>>),
                    (3 :> <<"r2z", 3>>) @@ (5 :> <<R2N[5], 2>>), FALSE, <<"none", 0>>, <<"none", 0>>) /\ Done

P4 ==
  /\ pc[1] = "p4"
  /\ UNCHANGED sc
  /\ PR = "ss_double" /\ ActKpFromSs(<<"kpX", 2>>, <<"ssC", 2>>) /\ Done

Next == Prefix \/ Choose \/ P1 \/ P2 \/ P3 \/ P4
Spec == Init /\ [][Next]_vars

\* every call returns a value or an error: `last.res` always has the field ok
InvTotal == "ok" \in DOMAIN last.res
Emit == (EMIT /\ pc[1] = "done") => PrintT(ToJson(Script("C14")))
=============================================================================
