-------------------------------- MODULE C06 --------------------------------
(* C06: dealer key generation yields consistent, verifiable shares of the   *)
(* given key.  Schedule: split (valid and invalid parameters, default /     *)
(* custom identifier lists incl. wrong count and duplicates) -> every       *)
(* participant converts its share -> one probe: a share with one coordinate *)
(* altered is converted, or a subset of key packages is reconstructed.      *)
EXTENDS Frost, Json

CONSTANTS Shapes,        \* set of <<n, t>>, valid and invalid
          IdLists,       \* set of identifier sequences (custom), may contain duplicates
          UseDefault,    \* also run with IdentifierList::Default when n < Q
          KeyChoices, CoeffChoices,
          Probes,        \* subset of {"tamper", "recon"}
          Deltas, EMIT

VARIABLES pc, sc
vars == <<fvars, pc, sc>>
PKP == <<"pkp", 0>>

Init == FrostInit /\ pc = <<"keygen", 0>> /\ sc = [n |-> 0]
Go(next) == pc' = IF last'.res.ok THEN next ELSE <<"done", 0>>

KeyGen ==
  /\ pc[1] = "keygen"
  /\ \E sh \in Shapes, key \in KeyChoices :
       \E custom \in IF UseDefault /\ sh[1] < Q THEN BOOLEAN ELSE {TRUE} :
       \E ids \in IF custom THEN IdLists ELSE {<< >>} :
       \E cs \in SeqsOf(CoeffChoices, SplitDraws(sh[1], sh[2], ids, custom)) :
          /\ ActSplit("ss", PKP, key, sh[1], sh[2], ids, custom, cs)
          /\ sc' = [n |-> sh[1], t |-> sh[2], ids |-> IF custom THEN ids ELSE DefaultIds(sh[1]),
                    key |-> key, cs |-> cs, custom |-> custom]
  /\ Go(<<"kp", 1>>)

MakeKp ==
  /\ pc[1] = "kp"
  /\ LET i == sc.ids[pc[2]] IN ActKpFromSs(<<"kp", i>>, <<"ss", i>>)
  /\ Go(IF pc[2] = sc.n THEN <<"probe", 0>> ELSE <<"kp", pc[2] + 1>>)
  /\ UNCHANGED sc

IdSet == {sc.ids[k] : k \in 1..sc.n}
\* reconstruct takes a slice of key packages in the caller's order: ascending, descending, rotated,
\* and (a refusal) with the first package listed twice
ReconOrders(s) ==
  LET m == Len(s) IN
  CallerOrders(s) \cup {Append(s, s[1])}

ChooseProbe ==
  /\ pc[1] = "probe"
  /\ \/ /\ "tamper" \in Probes
        /\ \E i \in IdSet :
             \/ \E d \in Deltas : sc' = sc @@ [probe |-> [kind |-> "tamper", i |-> i, what |-> "share", k |-> 0, d |-> d]]
             \/ \E j \in ZqNZ \ {i} : sc' = sc @@ [probe |-> [kind |-> "tamper", i |-> i, what |-> "id", k |-> 0, d |-> j]]
             \/ \E k \in 1..sc.t, d \in Deltas :
                    sc' = sc @@ [probe |-> [kind |-> "tamper", i |-> i, what |-> "commit", k |-> k, d |-> d]]
             \/ sc' = sc @@ [probe |-> [kind |-> "tamper", i |-> i, what |-> "trunc", k |-> 0, d |-> 0]]
             \/ \E d \in Deltas \cup {0} : sc' = sc @@ [probe |-> [kind |-> "tamper", i |-> i, what |-> "extend", k |-> 0, d |-> d]]
     \/ /\ "recon" \in Probes
        /\ \E T \in SUBSET IdSet : T # {} /\ \E o \in ReconOrders(Sorted(T)) :
               sc' = sc @@ [probe |-> [kind |-> "recon", T |-> o]]
  /\ pc' = <<"p1", 0>>
  /\ UNCHANGED fvars

PR == sc.probe

Probe1 ==
  /\ pc[1] = "p1"
  /\ UNCHANGED sc
  /\ IF PR.kind = "tamper"
     THEN ActTamperSs(<<"ssX", PR.i>>, <<"ss", PR.i>>, PR.what, PR.k, PR.d) /\ pc' = <<"p2", 0>>
     ELSE ActReconstruct([k \in DOMAIN PR.T |-> <<"kp", PR.T[k]>>]) /\ pc' = <<"done", 0>>

Probe2 ==
  /\ pc[1] = "p2"
  /\ UNCHANGED sc
  /\ ActKpFromSs(<<"kpX", PR.i>>, <<"ssX", PR.i>>)
  /\ pc' = <<"done", 0>>

Next == KeyGen \/ MakeKp \/ ChooseProbe \/ Probe1 \/ Probe2
Spec == Init /\ [][Next]_vars

-----------------------------------------------------------------------------
(* Properties.  EvalPow is a second, power-sum evaluation of a polynomial,  *)
(* independent of the Horner form used by the model of the code.            *)

EvalPow(c, x) == SumSeq([k \in 1..Len(c) |-> Mul(c[k], Pow(x, k - 1))])

ValidParams == sc.t >= 2 /\ sc.n >= 2 /\ sc.t <= sc.n
ValidIds    == Len(sc.ids) = sc.n /\ ~HasDup(sc.ids)
Poly        == <<sc.key>> \o sc.cs

\* invalid parameters / identifier lists are refused, valid ones accepted
InvParams ==
  (last.op = "split") => (last.res.ok <=> (ValidParams /\ ValidIds))

\* the dealer output: one polynomial of degree t-1 with f(0) = key; consistent packages
InvSplit ==
  (last.op = "split" /\ last.res.ok) =>
     LET r == last.res IN
     /\ Len(r.commit) = sc.t /\ r.commit = Poly /\ r.vk = sc.key /\ r.min = sc.t
     /\ DOMAIN r.shares = IdSet
     /\ \A i \in IdSet : r.shares[i] = EvalPow(Poly, i) /\ r.vs[i] = r.shares[i]
     /\ \A T \in SUBSET IdSet : Card(T) = sc.t => Interp0(T, r.shares) = sc.key

\* every honest share verifies and converts into a package linked to the public one
InvKp ==
  (last.op = "kp_from_ss" /\ pc[1] \in {"kp", "probe"}) =>
     /\ last.res.ok
     /\ last.res.vs = last.res.share
     /\ last.res.vs = env[PKP].vs[last.res.id]
     /\ last.res.vk = sc.key /\ last.res.min = sc.t

\* an altered share is accepted only if the altered triple still satisfies the
\* VSS equation (power-sum form); then the package carries the altered data
InvTamper ==
  (pc[1] = "done" /\ "probe" \in DOMAIN sc /\ PR.kind = "tamper" /\ last.op = "kp_from_ss") =>
     LET x == env[<<"ssX", PR.i>>]
         holds == x.commit # << >> /\ x.share = EvalPow(x.commit, x.id)
     IN /\ last.res.ok <=> holds
        /\ last.res.ok => last.res.min = Len(x.commit) /\ last.res.vk = x.commit[1]

\* any t (or more) distinct packages, in any order, reconstruct the key; fewer (or a repeated one) are refused
InvRecon ==
  (pc[1] = "done" /\ "probe" \in DOMAIN sc /\ PR.kind = "recon") =>
     IF Len(PR.T) >= sc.t /\ ~HasDup(PR.T) THEN last.res.ok /\ last.res.key = sc.key ELSE ~last.res.ok

Emit == (EMIT /\ pc[1] = "done") => PrintT(ToJson(Script("C06")))
=============================================================================
