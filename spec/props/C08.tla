-------------------------------- MODULE C08 --------------------------------
(* C08: key generation aborts and names the sender on any malformed peer    *)
(* contribution.  All participants run part1; everybody except the receiver *)
(* r runs part2 honestly (that produces the round-two packages); then r     *)
(* runs part2 and part3 with exactly one contribution of one sender s       *)
(* faulty.  Fault kinds (sc.fault):                                         *)
(*  r1field  s's round-one package with R, mu or one commitment coefficient *)
(*           altered (at part2 and part3)                                   *)
(*  r1len    its commitment truncated / extended                            *)
(*  r1swap   s's and x's packages filed under each other's identifier       *)
(*  r1graft  s's commitment carrying the proof of knowledge of x's package  *)
(*  r1own / r1unknown / r1missing / r1surplus   structural faults           *)
(*  r1late   honest at part2, one coefficient altered in the map at part3   *)
(*  r2delta  round-two share off by d                                       *)
(*  r2route  s's round-two package addressed to another recipient x         *)
(*  r2own / r2unknown / r2missing / r2surplus                               *)
(*  bothmissing  part2 sees everybody; at part3 s is absent from both maps  *)
(*               (pruned consistently, as after a peer timed out)           *)
(*  bothsurplus  at part3 both maps carry an extra pair under an unknown id *)
(* PairMode "ends" restricts (receiver, sender) to the smallest and largest *)
(* identifier (both ways) for the shape sweeps.                             *)
EXTENDS Frost, Json

CONSTANTS Shapes, IdSets, A0Choices, CoeffChoices, KChoices, Deltas, Faults, PairMode, EMIT

VARIABLES pc, sc
vars == <<fvars, pc, sc>>

Init == FrostInit /\ pc = <<"setup", 0>> /\ sc = [n |-> 0]
Go(next) == pc' = IF last'.res.ok THEN next ELSE <<"done", 0>>
IdSet == {sc.ids[k] : k \in 1..sc.n}
R2N == [i \in 1..16 |-> "r2from" \o ToString(i)]
Unknown == CHOOSE u \in ZqNZ : u \notin IdSet

Setup ==
  /\ pc[1] = "setup"
  /\ \E sh \in Shapes, I \in IdSets :
       /\ Card(I) = sh[1]
       /\ sc' = [n |-> sh[1], t |-> sh[2], ids |-> Sorted(I), poly |-> << >>]
  /\ pc' = <<"part1", 1>>
  /\ UNCHANGED fvars

Part1 ==
  /\ pc[1] = "part1"
  /\ LET i == sc.ids[pc[2]] IN
       \E a0 \in A0Choices, k \in KChoices : \E cs \in SeqsOf(CoeffChoices, sc.t - 1) :
          /\ ActDkg1(<<"r1s", i>>, <<"r1p", i>>, i, sc.n, sc.t, a0, cs, k, FALSE)
          /\ sc' = [sc EXCEPT !.poly = (i :> (<<a0>> \o cs)) @@ @]
  /\ Go(IF pc[2] = sc.n THEN <<"fault", 0>> ELSE <<"part1", pc[2] + 1>>)

\* choose receiver, sender and the fault
ChooseFault ==
  /\ pc[1] = "fault"
  /\ \E r \in IdSet, s \in IdSet : r # s /\
       (PairMode = "ends" => {r, s} = {sc.ids[1], sc.ids[sc.n]}) /\
       \E f \in Faults :
         \/ /\ f = "r1field"
            /\ \/ \E w \in {"R", "mu"}, d \in Deltas : sc' = sc @@ [r |-> r, s |-> s, fault |-> [kind |-> f, what |-> w, k |-> 0, d |-> d]]
               \/ \E k \in 1..sc.t, d \in Deltas : sc' = sc @@ [r |-> r, s |-> s, fault |-> [kind |-> f, what |-> "commit", k |-> k, d |-> d]]
         \/ /\ f = "r1len"
            /\ \E w \in {"trunc", "extend"} : sc' = sc @@ [r |-> r, s |-> s, fault |-> [kind |-> f, what |-> w, k |-> 0, d |-> 1]]
         \/ /\ f \in {"r1swap", "r2route", "r1graft"}
            /\ \E x \in IdSet \ {r, s} : sc' = sc @@ [r |-> r, s |-> s, fault |-> [kind |-> f, x |-> x]]
         \/ /\ f \in {"r1own", "r1unknown", "r1missing", "r1surplus", "r2own", "r2unknown", "r2missing", "r2surplus",
                     "bothmissing", "bothsurplus"}
            /\ sc' = sc @@ [r |-> r, s |-> s, fault |-> [kind |-> f]]
         \/ /\ f = "r1late"
            /\ \E k \in 1..sc.t, d \in Deltas : sc' = sc @@ [r |-> r, s |-> s, fault |-> [kind |-> f, k |-> k, d |-> d]]
         \/ /\ f = "r2delta"
            /\ \E d \in Deltas : sc' = sc @@ [r |-> r, s |-> s, fault |-> [kind |-> f, d |-> d]]
         \/ /\ f = "none"
            /\ sc' = sc @@ [r |-> r, s |-> s, fault |-> [kind |-> f]]
  /\ pc' = <<"others2", 1>>
  /\ UNCHANGED fvars

F == sc.fault
Others == Sorted(IdSet \ {sc.r})

\* everybody but the receiver runs part2 honestly
OthersPart2 ==
  /\ pc[1] = "others2"
  /\ LET i == Others[pc[2]] IN
       ActDkg2(<<"r2s", i>>, R2N[i], <<"r1s", i>>, [l \in IdSet \ {i} |-> <<"r1p", l>>], FALSE)
  /\ Go(IF pc[2] = Len(Others) THEN <<"forge", 0>> ELSE <<"others2", pc[2] + 1>>)
  /\ UNCHANGED sc

\* only encodable packages travel: no identity element anywhere (a real suite
\* cannot even decode one; in the toy field an offset may hit it by accident)
EncodableR1(p) == ~IsIdent(p.R) /\ \A k \in DOMAIN p.commit : ~IsIdent(p.commit[k])

\* the adversary prepares the altered object, if the fault needs one
Forge ==
  /\ pc[1] = "forge"
  /\ UNCHANGED sc
  /\ pc' = <<"recv2", 0>>
  /\ CASE F.kind \in {"r1field", "r1len"} ->
            /\ EncodableR1(TamperedR1(env[<<"r1p", sc.s>>], F.what, F.k, F.d))
            /\ ActTamperR1(<<"r1x", sc.s>>, <<"r1p", sc.s>>, F.what, F.k, F.d)
       [] F.kind = "r1late"  ->
            /\ EncodableR1(TamperedR1(env[<<"r1p", sc.s>>], "commit", F.k, F.d))
            /\ ActTamperR1(<<"r1x", sc.s>>, <<"r1p", sc.s>>, "commit", F.k, F.d)
       [] F.kind = "r2delta" -> ActTamperR2(<<"r2x", sc.s>>, <<R2N[sc.s], sc.r>>, F.d)
       [] F.kind = "r1graft" -> ActGraftProof(<<"r1x", sc.s>>, <<"r1p", sc.s>>, <<"r1p", F.x>>)
       [] OTHER -> UNCHANGED fvars

Honest1 == [l \in IdSet \ {sc.r} |-> <<"r1p", l>>]
Honest2 == [l \in IdSet \ {sc.r} |-> <<R2N[l], sc.r>>]
Without(f, k) == [x \in DOMAIN f \ {k} |-> f[x]]

\* the round-one map the receiver is given at part2 / at part3
R1At(stage) ==
  CASE F.kind \in {"r1field", "r1len", "r1graft"} -> [Honest1 EXCEPT ![sc.s] = <<"r1x", sc.s>>]
    [] F.kind = "r1swap"    -> [Honest1 EXCEPT ![sc.s] = <<"r1p", F.x>>, ![F.x] = <<"r1p", sc.s>>]
    [] F.kind = "r1own"     -> (sc.r :> <<"r1p", sc.s>>) @@ Without(Honest1, sc.s)
    [] F.kind = "r1unknown" -> (Unknown :> <<"r1p", sc.s>>) @@ Without(Honest1, sc.s)
    [] F.kind = "r1missing" -> Without(Honest1, sc.s)
    [] F.kind = "r1surplus" -> (Unknown :> <<"r1p", sc.s>>) @@ Honest1
    [] F.kind = "r1late"    -> IF stage = 3 THEN [Honest1 EXCEPT ![sc.s] = <<"r1x", sc.s>>] ELSE Honest1
    [] F.kind = "bothmissing" -> IF stage = 3 THEN Without(Honest1, sc.s) ELSE Honest1
    [] F.kind = "bothsurplus" -> IF stage = 3 THEN (Unknown :> <<"r1p", sc.s>>) @@ Honest1 ELSE Honest1
    [] OTHER -> Honest1

R2Map ==
  CASE F.kind = "r2delta"   -> [Honest2 EXCEPT ![sc.s] = <<"r2x", sc.s>>]
    [] F.kind = "r2route"   -> [Honest2 EXCEPT ![sc.s] = <<R2N[sc.s], F.x>>]
    [] F.kind = "r2own"     -> (sc.r :> <<R2N[sc.s], sc.r>>) @@ Without(Honest2, sc.s)
    [] F.kind = "r2unknown" -> (Unknown :> <<R2N[sc.s], sc.r>>) @@ Without(Honest2, sc.s)
    [] F.kind = "r2missing" -> Without(Honest2, sc.s)
    [] F.kind = "r2surplus" -> (Unknown :> <<R2N[sc.s], sc.r>>) @@ Honest2
    [] F.kind = "bothmissing" -> Without(Honest2, sc.s)
    [] F.kind = "bothsurplus" -> (Unknown :> <<R2N[sc.s], sc.r>>) @@ Honest2
    \* when the round-one map is keyed differently the round-two map follows it
    [] F.kind = "r1swap"    -> Honest2
    [] OTHER -> Honest2

Recv2 ==
  /\ pc[1] = "recv2"
  /\ ActDkg2(<<"r2s", sc.r>>, R2N[sc.r], <<"r1s", sc.r>>, R1At(2), FALSE)
  /\ Go(<<"recv3", 0>>)
  /\ UNCHANGED sc

Recv3 ==
  /\ pc[1] = "recv3"
  /\ ActDkg3(<<"kp", sc.r>>, <<"pkp", sc.r>>, <<"r2s", sc.r>>, R1At(3), R2Map, FALSE, <<"none", 0>>, <<"none", 0>>)
  /\ pc' = <<"done", 0>>
  /\ UNCHANGED sc

Next == Setup \/ Part1 \/ ChooseFault \/ OthersPart2 \/ Forge \/ Recv2 \/ Recv3
Spec == Init /\ [][Next]_vars

-----------------------------------------------------------------------------
(* Properties *)

EvalPow(c, x) == SumSeq([k \in 1..Len(c) |-> Mul(c[k], Pow(x, k - 1))])
HonestShare(i) == SumOver(IdSet, LAMBDA l : EvalPow(sc.poly[l], i))
HonestVk == SumOver(IdSet, LAMBDA l : sc.poly[l][1])
Faulty == "fault" \in DOMAIN sc /\ F.kind # "none"
AtRecv == pc[1] \in {"recv3", "done"} /\ last.op \in {"dkg2", "dkg3"}

\* no silent divergence: if the receiver obtains key material at all, it is
\* exactly the material of the fault-free run (the fault was algebraically void)
InvNoSilentAccept ==
  (pc[1] = "done" /\ last.op = "dkg3" /\ last.res.ok) =>
     /\ last.res.kp.share = HonestShare(sc.r) /\ last.res.kp.vs = last.res.kp.share
     /\ last.res.kp.vk = HonestVk /\ last.res.pkp.vk = HonestVk /\ last.res.kp.min = sc.t
     /\ last.res.pkp.vs = [j \in IdSet |-> HonestShare(j)]

\* which identifier the faulty entry is filed under (what an error may name)
FaultSlots ==
  CASE F.kind = "r1swap" -> {sc.s, F.x}
    [] F.kind \in {"r1unknown", "r1surplus", "r2unknown", "r2surplus", "bothsurplus"} -> {Unknown, sc.s}
    [] OTHER -> {sc.s}

\* an error names nobody but the offender
InvCulprits ==
  (Faulty /\ AtRecv /\ ~last.res.ok) =>
     \A k \in DOMAIN last.res.culprits : last.res.culprits[k] \in FaultSlots

\* faults that always break a check are always caught, at the step that consumes
\* the field, and attributed
InvCaught ==
  (Faulty /\ pc[1] = "done") =>
     /\ (F.kind \in {"r1len", "r1own", "r1missing", "r1surplus"}) => (last.op = "dkg2" /\ ~last.res.ok)
     /\ (F.kind \in {"r2own", "r2unknown", "r2missing", "r2surplus", "bothmissing", "bothsurplus"}) =>
           (last.op = "dkg3" /\ ~last.res.ok)
     /\ (F.kind \in {"r2delta", "r1late"}) =>
           (last.op = "dkg3" /\ ~last.res.ok /\ last.res.err = "InvalidSecretShare" /\ last.res.culprits = <<sc.s>>)
     /\ (F.kind = "r1field" /\ F.what = "commit" /\ F.k >= 2) =>
           (last.op = "dkg3" /\ ~last.res.ok /\ last.res.culprits = <<sc.s>>)
     /\ (F.kind = "r1field" /\ last.op = "dkg2" /\ ~last.res.ok) =>
           (last.res.err = "InvalidProofOfKnowledge" /\ last.res.culprits = <<sc.s>>)
     /\ (F.kind = "none") => (last.op = "dkg3" /\ last.res.ok)

Emit == (EMIT /\ pc[1] = "done") =>
   PrintT(ToJson(Script("C08") @@ [probe |-> F.kind, gen_accept |-> (F.kind = "none"),
                                     accepted |-> (last.op = "dkg3" /\ last.res.ok)]))
=============================================================================
