------------------------------ MODULE C13Size ------------------------------
(* C13, the size dimension.  The encodings of a participant's saved state   *)
(* grow with the threshold (round-one secret package, round-one package,    *)
(* secret share: one coefficient / commitment entry per unit of t) and with *)
(* the number of participants (public key package, signing package).  One   *)
(* behaviour per size t (= n = number of signers) and per persistence route:*)
(*   dkg part1 -> save/restore the secret package and the package           *)
(*   dealer split -> save/restore a share in transit -> key packages ->     *)
(*   save/restore a key package and the public key package ->               *)
(*   every signer commits -> save/restore nonces and commitments ->         *)
(*   signing package -> save/restore it -> the first signer signs from the  *)
(*   restored nonces, key package and signing package.                      *)
(* Save/restore leaves the specification's state unchanged, so its          *)
(* expectation of the signature share is that of the uninterrupted run.     *)
EXTENDS Frost, Json

CONSTANTS Sizes,        \* set of t
          Forms,        \* persistence routes: "bin" (postcard), "json", "parts" (component-level bytes)
          Key, Coeff, NonceK, Msg, EMIT

VARIABLES pc, sc
vars == <<fvars, pc, sc>>

PKP == <<"pkp", 0>>
PKG == <<"pkg", 0>>
T == sc.t
IdSeq == [k \in 1..T |-> k]
Fill(n) == [k \in 1..n |-> Coeff]

Init == FrostInit /\ pc = <<"start", 0>> /\ sc = [t |-> 0, form |-> "bin"]
Go(next) == pc' = IF last'.res.ok THEN next ELSE <<"done", 0>>

Start ==
  /\ pc[1] = "start"
  /\ \E t \in Sizes, f \in Forms : sc' = [t |-> t, form |-> f]
  /\ pc' = <<"dkg1", 0>>
  /\ UNCHANGED fvars

\* the saved objects, in the order they are saved; after the k-th the run continues at After[k]
Saved == << <<"r1s", 1>>, <<"r1p", 1>>, <<"ss", 1>>, <<"kp", 1>>, PKP, <<"non", 1>>, <<"comm", 1>>, PKG >>
After == << <<"save", 2>>, <<"split", 0>>, <<"kp", 1>>, <<"save", 5>>, <<"commit", 1>>, <<"save", 7>>,
            <<"package", 0>>, <<"sign", 0>> >>

Step ==
  /\ UNCHANGED sc
  /\ \/ /\ pc[1] = "dkg1"
        /\ ActDkg1(<<"r1s", 1>>, <<"r1p", 1>>, 1, T, T, Key, Fill(T - 1), NonceK, FALSE)
        /\ Go(<<"save", 1>>)
     \/ /\ pc[1] = "save"
        /\ ActReload(Saved[pc[2]], sc.form)
        /\ Go(After[pc[2]])
     \/ /\ pc[1] = "split"
        /\ ActSplit("ss", PKP, Key, T, T, IdSeq, TRUE, Fill(T - 1))
        /\ Go(<<"save", 3>>)
     \/ /\ pc[1] = "kp"
        /\ ActKpFromSs(<<"kp", pc[2]>>, <<"ss", pc[2]>>)
        /\ Go(IF pc[2] = T THEN <<"save", 4>> ELSE <<"kp", pc[2] + 1>>)
     \/ /\ pc[1] = "commit"
        /\ ActCommit(<<"non", pc[2]>>, <<"comm", pc[2]>>, <<"kp", pc[2]>>, 1, 2)
        /\ Go(IF pc[2] = T THEN <<"save", 6>> ELSE <<"commit", pc[2] + 1>>)
     \/ /\ pc[1] = "package"
        /\ ActPackage(PKG, Msg, [i \in 1..T |-> <<"comm", i>>])
        /\ Go(<<"save", 8>>)
     \/ /\ pc[1] = "sign"
        /\ ActSign(<<"z", 1>>, PKG, <<"non", 1>>, <<"kp", 1>>)
        /\ pc' = <<"done", 0>>

Next == Start \/ Step
Spec == Init /\ [][Next]_vars

-----------------------------------------------------------------------------
\* a run ends with the signature share, unless an identity element made something unencodable or
\* unusable on the way (a coincidence of the toy field: probability ~1/q)
Degenerate == ~last.res.ok /\ IF "stage" \in DOMAIN last.res THEN last.res.stage = "ser" ELSE last.res.err = "GroupError"
InvCompletes == (pc[1] = "done") => ((last.op = "sign" /\ last.res.ok) \/ Degenerate)
\* what is saved is restored unchanged
InvRestored == (last.op = "reload" /\ last.res.ok) => last.res.same

Emit == (EMIT /\ pc[1] = "done") => PrintT(ToJson(Script("C13")))
=============================================================================
