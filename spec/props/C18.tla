-------------------------------- MODULE C18 --------------------------------
(* C18: Taproot signatures are valid BIP-340 signatures for the BIP-341      *)
(* output key, in all eight combinations of (internal key parity, output key *)
(* parity, group commitment parity).  The design of the negation logic is    *)
(* checked exhaustively over the toy field: every secret, every tweak value, *)
(* every pair of signer nonces, every challenge.  The Taproot code itself is *)
(* not generic over the ciphersuite, so it is bound to this model through    *)
(* traces of the real suite with every parity combination forced             *)
(* (spec/trace/TraceTaproot.tla).                                            *)
EXTENDS FrostTaproot, TLC

CONSTANTS Ids,           \* identifier set of the group
          T,             \* threshold
          Secrets, Coeffs,      \* sharing polynomial
          Tweaks,        \* values of int(hashTapTweak(x(P) || root)); 0 = degenerate
          NonceVals, Rhos, Chals, Deltas

VARIABLES st
vars == <<st>>

ShareOf(poly, i) == EvalPoly(poly, i)

Init ==
  \E s \in Secrets, cs \in SeqsOf(Coeffs, T - 1), t \in Tweaks, S \in SUBSET Ids :
   \E dn \in [S -> NonceVals], en \in [S -> NonceVals], rho \in [S -> Rhos], c \in Chals :
   \E cheat \in S \cup {0}, dl \in Deltas :
     /\ Cardinality(S) >= T
     /\ st = [phase |-> "start", s |-> s, poly |-> <<s>> \o cs, t |-> t, S |-> S, d |-> dn, e |-> en,
              rho |-> rho, c |-> c, cheat |-> cheat, dl |-> dl]

P  == st.s                                   \* internal key (discrete log)
Q0 == Add(Lift(P), st.t)                     \* BIP-341 output key: lift_x(P) + t*G
\* the dealer's packages, then tweaked as the library does
Kp(i) == [id |-> i, share |-> ShareOf(st.poly, i), vs |-> ShareOf(st.poly, i), vk |-> P, min |-> T]
Pkp   == [vs |-> [i \in Ids |-> ShareOf(st.poly, i)], vk |-> P, min |-> T]
TKp(i) == TweakKp(Kp(i), st.t)
TPkp   == TweakPkp(Pkp, st.t)
R == SumOver(st.S, LAMBDA i : Add(st.d[i], Mul(st.rho[i], st.e[i])))
Lam(i) == Lagrange(st.S, -1, i)
Honest(i) == TrShare(TKp(i), st.d[i], st.e[i], st.rho[i], Lam(i), st.c, R)
Given(i)  == IF i = st.cheat THEN Add(Honest(i), st.dl) ELSE Honest(i)
Z == SumOver(st.S, LAMBDA i : Given(i))
Degenerate == R = 0 \/ Q0 = 0 \/ TPkp.vk = 0 \/ \E i \in st.S : st.d[i] = 0 \/ st.e[i] = 0

Next == st.phase = "start" /\ st' = [st EXCEPT !.phase = "done"]
Spec == Init /\ [][Next]_vars

\* the tweaked packages carry the BIP-341 output key
InvOutputKey == TPkp.vk = Q0 /\ \A i \in Ids : TKp(i).vk = Q0 /\ TKp(i).vs = TPkp.vs[i]

\* the tweaked shares are shares of the output key's discrete log
InvTweakedShares ==
  \A K \in SUBSET Ids : Cardinality(K) = T => Interp0(K, [i \in K |-> TKp(i).share]) = TPkp.vk

\* with honest shares the aggregate is a BIP-340 signature for the x-only output key:
\* z*G = lift_x(R) + c * lift_x(Q), in every parity combination
InvBip340 ==
  (~Degenerate /\ st.cheat = 0) => TrVerifies(Q0, R, Z, st.c)

\* share verification (with its parity branch) accepts exactly the honest shares,
\* so cheater identification gives the same answers in every parity case
InvShareCheck ==
  ~Degenerate =>
    \A i \in st.S :
       TrShareHolds(TPkp, i, Given(i), Add(st.d[i], Mul(st.rho[i], st.e[i])), Lam(i), st.c, R)
         <=> (i # st.cheat \/ st.dl = 0)

\* a signature made with one altered share does not verify
InvNoForgery == (~Degenerate /\ st.cheat # 0 /\ st.dl # 0) => ~TrVerifies(Q0, R, Z, st.c)

\* and when a tweak was requested (t # 0) it does not verify under the untweaked key,
\* except through the value coincidence c*t = 0 or a key collision
InvNotUntweaked ==
  (~Degenerate /\ st.cheat = 0 /\ TrVerifies(P, R, Z, st.c)) => Mul(st.c, Lift(Q0)) = Mul(st.c, Lift(P))

\* all eight parity combinations are reachable within the constants (no vacuity)
Combos == {<<Even(s), Even(Add(Lift(s), t)), Even(r)>> : s \in Secrets, t \in Tweaks, r \in ZqNZ}
ASSUME AllEightCombos == \A a \in BOOLEAN, b \in BOOLEAN, c \in BOOLEAN : <<a, b, c>> \in Combos
=============================================================================
