-------------------------------- MODULE Life --------------------------------
(* The whole life of a key: generation (trusted dealer or distributed), then *)
(* any sequence of operations on the *current* key material -- signing       *)
(* sessions, re-randomized sessions, trusted-dealer and distributed          *)
(* refreshes (optionally retiring the last member), repair of a member's     *)
(* share by the others, save/restore of every key package -- each run with   *)
(* its canonical sub-schedule.  This composes the models of C01, C07, C10,   *)
(* C11, C13 and C17 and checks what must survive every composition:          *)
(*   the group key never changes; every member's key package stays linked to *)
(*   the current public package (verifying share = G * share = its entry);   *)
(*   the members' shares always interpolate to the group secret; every       *)
(*   session of t current members succeeds and verifies.                     *)
EXTENDS Frost, Json

CONSTANTS Shapes, IdSets, Inits,       \* subset of {"dealer", "dkg"}
          OpSeqs,                      \* set of sequences over {"sign","rrsign","refresh_dealer","refresh_dkg",
                                       \*                         "refresh_dealer_drop","repair","reload"}
          Vals,                        \* non-zero values used for keys, coefficients, nonces of proofs
          RandChoices, Msg, EMIT

VARIABLES pc, sc
vars == <<fvars, pc, sc>>

Init == FrostInit /\ pc = <<"start", 0, 0>> /\ sc = [n |-> 0]

S(x) == ToString(x)
KP(e, i)   == <<"kp" \o S(e), i>>
PKPd(e)    == <<"pkp" \o S(e), 0>>
PKPi(e, i) == <<"pkp" \o S(e), i>>
R2N(tag, e, i) == tag \o S(e) \o "from" \o S(i)
DN(k, i) == "d" \o S(k) \o "from" \o S(i)

Members == sc.members                      \* ascending sequence of current members
MSet == {Members[k] : k \in DOMAIN Members}
E == sc.e
\* the public package of epoch e as the coordinator (first member) holds it
CurPkp == IF sc.kind[E + 1] = "dkg" THEN PKPi(E, Members[1]) ELSE PKPd(E)
PkpOf(i) == IF sc.kind[E + 1] = "dkg" THEN PKPi(E, i) ELSE PKPd(E)
Op == IF sc.k <= Len(sc.ops) THEN sc.ops[sc.k] ELSE "end"
Go3(next) == pc' = IF last'.res.ok THEN next ELSE <<"done", 0, 0>>
LastM(j) == j = Len(Members)
Val(j) == Sorted(Vals)[((j - 1) % Cardinality(Vals)) + 1]

Start ==
  /\ pc[1] = "start"
  /\ \E sh \in Shapes, I \in IdSets, init \in Inits, ops \in OpSeqs :
       /\ Card(I) = sh[1]
       /\ sc' = [n |-> sh[1], t |-> sh[2], ids |-> Sorted(I), members |-> Sorted(I), init |-> init, ops |-> ops, k |-> 0,
                 e |-> 0, kind |-> <<init>>, secret |-> 0, share |-> [i \in I |-> 0]]
       /\ pc' = <<init, 1, 0>>
  /\ UNCHANGED fvars

\* ---------------------------------------------------------------- key generation
InitDealer ==
  /\ pc[1] = "dealer"
  /\ IF pc[2] = 1
     THEN /\ \E cs \in SeqsOf(Vals, sc.t - 1) :
               /\ ActSplit("ss", PKPd(0), Val(1), sc.n, sc.t, sc.ids, TRUE, cs)
               /\ sc' = [sc EXCEPT !.secret = Val(1), !.share = [i \in MSet |-> EvalPoly(<<Val(1)>> \o cs, i)]]
          /\ Go3(<<"dealer", 2, 1>>)
     ELSE /\ ActKpFromSs(KP(0, Members[pc[3]]), <<"ss", Members[pc[3]]>>)
          /\ Go3(IF LastM(pc[3]) THEN <<"next", 0, 0>> ELSE <<"dealer", 2, pc[3] + 1>>)
          /\ UNCHANGED sc

InitDkg ==
  /\ pc[1] = "dkg"
  /\ LET j == pc[3]
         i == Members[IF j = 0 THEN 1 ELSE j]
         others == MSet \ {i}
     IN CASE pc[2] = 1 ->
               /\ \E cs \in SeqsOf(Vals, sc.t - 1) :
                    LET jj == IF j = 0 THEN 1 ELSE j
                        ii == Members[jj]
                    IN /\ ActDkg1(<<"r1s", ii>>, <<"r1p", ii>>, ii, sc.n, sc.t, Val(jj), cs, Val(jj + 1), FALSE)
                       /\ sc' = [sc EXCEPT !.secret = Add(@, Val(jj)),
                                           !.share = [x \in MSet |-> Add(@[x], EvalPoly(<<Val(jj)>> \o cs, x))]]
                       /\ Go3(IF LastM(jj) THEN <<"dkg", 2, 1>> ELSE <<"dkg", 1, jj + 1>>)
          [] pc[2] = 2 ->
               /\ ActDkg2(<<"r2s", i>>, R2N("r2g", 0, i), <<"r1s", i>>, [l \in others |-> <<"r1p", l>>], FALSE)
               /\ Go3(IF LastM(j) THEN <<"dkg", 3, 1>> ELSE <<"dkg", 2, j + 1>>) /\ UNCHANGED sc
          [] pc[2] = 3 ->
               /\ ActDkg3(KP(0, i), PKPi(0, i), <<"r2s", i>>, [l \in others |-> <<"r1p", l>>],
                          [l \in others |-> <<R2N("r2g", 0, l), i>>], FALSE, <<"none", 0>>, <<"none", 0>>)
               /\ Go3(IF LastM(j) THEN <<"next", 0, 0>> ELSE <<"dkg", 3, j + 1>>) /\ UNCHANGED sc

\* ---------------------------------------------------------------- dispatcher
NextOp ==
  /\ pc[1] = "next"
  /\ UNCHANGED fvars
  /\ sc' = [sc EXCEPT !.k = @ + 1]
  /\ pc' = IF sc.k + 1 > Len(sc.ops) THEN <<"done", 0, 0>> ELSE <<sc.ops[sc.k + 1], 1, 1>>

\* ---------------------------------------------------------------- signing sessions (the first t members)
Signers == SubSeq(Members, 1, sc.t)
SgSet == {Signers[k] : k \in DOMAIN Signers}
N_(x, i) == <<x \o S(sc.k), i>>
LastS(j) == j = Len(Signers)
RR == Op = "rrsign"

Session ==
  /\ pc[1] \in {"sign", "rrsign"}
  /\ UNCHANGED sc
  /\ LET j == pc[3]
         i == Signers[j]
     IN CASE pc[2] = 1 ->
               (\E b1 \in RandChoices, b2 \in RandChoices : ActCommit(N_("non", i), N_("comm", i), KP(E, i), b1, b2))
               /\ Go3(IF LastS(j) THEN <<pc[1], 2, 1>> ELSE <<pc[1], 1, j + 1>>)
          [] pc[2] = 2 ->
               ActPackage(N_("pkg", 0), Msg, [x \in SgSet |-> N_("comm", x)])
               /\ Go3(IF RR THEN <<pc[1], 3, 1>> ELSE <<pc[1], 4, 1>>)
          [] pc[2] = 3 ->    \* coordinator draws the randomizer seed
               ActRrNew(N_("rp", 0), N_("seed", 0), CurPkp, N_("pkg", 0), U16(Val(sc.k)))
               /\ Go3(<<pc[1], 4, 1>>)
          [] pc[2] = 4 ->
               (IF RR THEN ActRrSign(N_("z", i), N_("pkg", 0), N_("non", i), KP(E, i), N_("seed", 0))
                ELSE ActSign(N_("z", i), N_("pkg", 0), N_("non", i), KP(E, i)))
               /\ Go3(IF LastS(j) THEN <<pc[1], 5, 1>> ELSE <<pc[1], 4, j + 1>>)
          [] pc[2] = 5 ->
               (IF RR THEN ActRrAggregate(N_("sig", 0), N_("pkg", 0), [x \in SgSet |-> N_("z", x)], CurPkp, "FirstCheater", N_("rp", 0))
                ELSE ActAggregate(N_("sig", 0), N_("pkg", 0), [x \in SgSet |-> N_("z", x)], CurPkp, "FirstCheater"))
               /\ Go3(<<pc[1], 6, 1>>)
          [] pc[2] = 6 ->
               ActVerifyUnder(IF RR THEN N_("rp", 0) ELSE CurPkp, Msg, N_("sig", 0))
               /\ Go3(<<"next", 0, 0>>)

\* ---------------------------------------------------------------- refresh (epoch E -> E+1)
Remaining == IF Op = "refresh_dealer_drop" /\ Len(Members) > sc.t THEN SubSeq(Members, 1, Len(Members) - 1) ELSE Members
RemSet == {Remaining[k] : k \in DOMAIN Remaining}

RefreshDealer ==
  /\ pc[1] \in {"refresh_dealer", "refresh_dealer_drop"}
  /\ IF pc[2] = 1
     THEN /\ \E cs \in SeqsOf(Vals, sc.t - 1) :
               /\ ActRefreshShares("zs" \o S(E + 1), PKPd(E + 1), CurPkp, Remaining, cs)
               /\ sc' = [sc EXCEPT !.share = [x \in MSet |-> IF x \in RemSet THEN Add(@[x], EvalPoly(<<0>> \o cs, x)) ELSE @[x]]]
          /\ Go3(<<pc[1], 2, 1>>)
     ELSE /\ LET i == Remaining[pc[3]] IN ActRefreshShare(KP(E + 1, i), <<"zs" \o S(E + 1), i>>, KP(E, i))
          /\ IF pc[3] = Len(Remaining)
             THEN /\ sc' = [sc EXCEPT !.e = E + 1, !.kind = Append(@, "dealer"), !.members = Remaining]
                  /\ Go3(<<"next", 0, 0>>)
             ELSE /\ UNCHANGED sc /\ Go3(<<pc[1], 2, pc[3] + 1>>)

RefreshDkg ==
  /\ pc[1] = "refresh_dkg"
  /\ LET j == pc[3]
         i == Members[j]
         others == MSet \ {i}
         tg == "rr" \o S(E + 1)
     IN CASE pc[2] = 1 ->
               /\ \E cs \in SeqsOf(Vals, sc.t - 1) :
                    /\ ActDkg1(<<tg \o "s1", i>>, <<tg \o "p1", i>>, i, Len(Members), sc.t, 0, cs, Val(j), TRUE)
                    /\ sc' = [sc EXCEPT !.share = [x \in MSet |-> Add(@[x], EvalPoly(<<0>> \o cs, x))]]
               /\ Go3(IF LastM(j) THEN <<pc[1], 2, 1>> ELSE <<pc[1], 1, j + 1>>)
          [] pc[2] = 2 ->
               /\ ActDkg2(<<tg \o "s2", i>>, R2N("r2r", E + 1, i), <<tg \o "s1", i>>, [l \in others |-> <<tg \o "p1", l>>], TRUE)
               /\ Go3(IF LastM(j) THEN <<pc[1], 3, 1>> ELSE <<pc[1], 2, j + 1>>) /\ UNCHANGED sc
          [] pc[2] = 3 ->
               /\ ActDkg3(KP(E + 1, i), PKPi(E + 1, i), <<tg \o "s2", i>>, [l \in others |-> <<tg \o "p1", l>>],
                          [l \in others |-> <<R2N("r2r", E + 1, l), i>>], TRUE, PkpOf(i), KP(E, i))
               /\ IF LastM(j)
                  THEN /\ sc' = [sc EXCEPT !.e = E + 1, !.kind = Append(@, "dkg")]
                       /\ Go3(<<"next", 0, 0>>)
                  ELSE /\ UNCHANGED sc /\ Go3(<<pc[1], 3, j + 1>>)

\* ---------------------------------------------------------------- repair of the last member's share by the first t members
X == Members[Len(Members)]
Helpers == SubSeq(Members, 1, sc.t)
HSet == {Helpers[k] : k \in DOMAIN Helpers}

Repair ==
  /\ pc[1] = "repair"
  /\ UNCHANGED sc
  /\ IF Len(Members) <= sc.t THEN UNCHANGED fvars /\ pc' = <<"next", 0, 0>>      \* nobody left to help
     ELSE LET j == pc[3] IN
       CASE pc[2] = 1 ->
              LET i == Helpers[j] IN
              (\E ds \in SeqsOf(Vals, sc.t - 1) : ActRepair1(DN(sc.k, i), Helpers, KP(E, i), ds, X))
              /\ Go3(IF j = sc.t THEN <<"repair", 2, 1>> ELSE <<"repair", 1, j + 1>>)
         [] pc[2] = 2 ->
              ActRepair2(N_("sigma", Helpers[j]), [k \in 1..sc.t |-> <<DN(sc.k, Helpers[k]), Helpers[j]>>])
              /\ Go3(IF j = sc.t THEN <<"repair", 3, 1>> ELSE <<"repair", 2, j + 1>>)
         [] pc[2] = 3 ->
              \* the repaired package replaces the lost one
              ActRepair3(KP(E, X), [k \in 1..sc.t |-> N_("sigma", Helpers[k])], X, CurPkp)
              /\ Go3(<<"next", 0, 0>>)

\* ---------------------------------------------------------------- every member saves and restores its key package
Reload ==
  /\ pc[1] = "reload"
  /\ UNCHANGED sc
  /\ ActReload(KP(E, Members[pc[3]]), IF pc[3] % 2 = 0 THEN "bin" ELSE "json")
  /\ Go3(IF LastM(pc[3]) THEN <<"next", 0, 0>> ELSE <<"reload", 1, pc[3] + 1>>)

Next == Start \/ InitDealer \/ InitDkg \/ NextOp \/ Session \/ RefreshDealer \/ RefreshDkg \/ Repair \/ Reload
Spec == Init /\ [][Next]_vars

-----------------------------------------------------------------------------
(* What survives every composition *)

AtRest == pc[1] \in {"next", "done"} /\ "members" \in DOMAIN sc /\ (pc[1] = "done" => last.res.ok)

\* every member's package is linked to the current public package; the group key never changes
InvLinked ==
  (AtRest /\ sc.secret # 0) =>
     \A i \in MSet :
        LET kp == env[KP(E, i)]
            pk == env[PkpOf(i)]
        IN /\ kp.id = i /\ kp.min = sc.t /\ kp.vk = sc.secret /\ pk.vk = sc.secret /\ pk.min = sc.t
           /\ kp.share = sc.share[i]
           /\ kp.vs = kp.share /\ pk.vs[i] = kp.vs
           /\ DOMAIN pk.vs = MSet

\* the members' shares are shares of the group secret
InvShares ==
  AtRest => \A T \in SUBSET MSet : Card(T) = sc.t => Interp0(T, [i \in T |-> sc.share[i]]) = sc.secret

\* nothing an honest life does fails, except through an identity element (toy coincidence)
\* (an identity verifying share or commitment cannot be encoded: the failure then is either the library's
\* GroupError or, for a save/restore step, the serialisation stage; probability ~1/q in the toy field)
InvNeverFails ==
  (~last.res.ok) => IF "err" \in DOMAIN last.res THEN last.res.err = "GroupError"
                    ELSE last.op = "reload" /\ last.res.stage = "ser"

\* released signatures verify
InvVerify == (last.op = "verify") => last.res.ok

Emit == (EMIT /\ pc[1] = "done") => PrintT(ToJson(Script("LIFE")))
=============================================================================
