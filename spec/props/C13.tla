-------------------------------- MODULE C13 --------------------------------
(* C13: protocol state saved between rounds resumes to the identical        *)
(* outcome.  One long run: distributed key generation -> a signing session  *)
(* -> a distributed refresh -> a trusted-dealer refresh -> a repair of the  *)
(* last member's share -> a second signing session.  At the chosen crash points the acting participant serialises   *)
(* its local secret state (binary or JSON), drops it and continues from the *)
(* decoded copy.  The specification's expectation of every later output is  *)
(* the same with and without the crash (Reload leaves the environment       *)
(* unchanged); the replay and the paired real-suite runs therefore demand   *)
(* byte-identical later outputs.                                            *)
EXTENDS Frost, Json

CONSTANTS Shape, Ids, Polys,      \* DKG: id -> coefficients
          RPolys,                 \* distributed refresh: id -> upper coefficients
          DCoeffs,                \* dealer refresh coefficients
          KNonce, Crash,          \* set of crash-point sets (subsets of Boundaries)
          Forms, Msg, EMIT

VARIABLES pc, sc
vars == <<fvars, pc, sc>>

N == Shape[1]
T == Shape[2]
IdSeq == Sorted(Ids)
R2N(e, i) == "r2e" \o ToString(e) \o "from" \o ToString(i)
Boundaries == {"dkg1", "dkg2", "dkg3", "commit", "rdkg1", "rdkg2", "rdkg3", "dealer_share", "dealer_kp",
               "repair_delta", "repair_sigma", "repair_kp", "commit2"}

Init == FrostInit /\ pc = <<"start", 0>> /\ sc = [crash |-> {}]
Go(next) == pc' = IF last'.res.ok THEN next ELSE <<"done", 0>>
Nxt(ph, k, after) == IF k = N THEN after ELSE <<ph, k + 1>>
I == IdSeq[pc[2]]

Start ==
  /\ pc[1] = "start"
  /\ \E c \in Crash, f \in Forms : sc' = [crash |-> c, form |-> f]
  /\ pc' = <<"dkg1", 1>>
  /\ UNCHANGED fvars

\* a protocol step followed, at a crash point, by save / restore of the state it left
\* `saved` = handles of the participant's local state after this step
Phase(ph, act, saved, after) ==
  \/ /\ pc[1] = ph
     /\ act
     /\ pc' = IF ~last'.res.ok THEN <<"done", 0>>
              ELSE IF ph \in sc.crash /\ saved # << >> THEN <<ph \o "_save", pc[2], 1>>
              ELSE Nxt(ph, pc[2], after)
     /\ UNCHANGED sc
  \/ /\ pc[1] = ph \o "_save"
     /\ ActReload(saved[pc[3]], sc.form)
     /\ pc' = IF pc[3] < Len(saved) THEN <<pc[1], pc[2], pc[3] + 1>> ELSE Nxt(ph, pc[2], after)
     /\ UNCHANGED sc

Others == Ids \ {I}
HelpersC == SubSeq(IdSeq, 1, T)
XR == IdSeq[N]
DNc == [i \in 1..64 |-> "dc" \o ToString(i)]
S2 == {IdSeq[1], IdSeq[2]}           \* the signers of both sessions (T = 2) or all

Next ==
  \/ Start
  \* ---- distributed key generation
  \/ Phase("dkg1", ActDkg1(<<"r1s", I>>, <<"r1p", I>>, I, N, T, Polys[I][1], SubSeq(Polys[I], 2, T), KNonce, FALSE),
           <<<<"r1s", I>>>>, <<"dkg2", 1>>)
  \/ Phase("dkg2", ActDkg2(<<"r2s", I>>, R2N(0, I), <<"r1s", I>>, [l \in Others |-> <<"r1p", l>>], FALSE),
           <<<<"r2s", I>>>>, <<"dkg3", 1>>)
  \/ Phase("dkg3", ActDkg3(<<"kp0", I>>, <<"pkp0", I>>, <<"r2s", I>>, [l \in Others |-> <<"r1p", l>>],
                           [l \in Others |-> <<R2N(0, l), I>>], FALSE, <<"none", 0>>, <<"none", 0>>),
           <<<<"kp0", I>>, <<"pkp0", I>>>>, <<"commit", 1>>)
  \* ---- first signing session (all participants sign)
  \/ Phase("commit", ActCommit(<<"non", I>>, <<"comm", I>>, <<"kp0", I>>, pc[2], pc[2] + 10),
           <<<<"non", I>>>>, <<"package", 1>>)
  \/ /\ pc[1] = "package" /\ ActPackage(<<"pkg", 0>>, Msg, [i \in Ids |-> <<"comm", i>>]) /\ Go(<<"sign", 1>>) /\ UNCHANGED sc
  \/ Phase("sign", ActSign(<<"z", I>>, <<"pkg", 0>>, <<"non", I>>, <<"kp0", I>>), << >>, <<"agg", 1>>)
  \/ /\ pc[1] = "agg" /\ ActAggregate(<<"sig", 0>>, <<"pkg", 0>>, [i \in Ids |-> <<"z", i>>], <<"pkp0", IdSeq[1]>>, "FirstCheater")
     /\ Go(<<"rdkg1", 1>>) /\ UNCHANGED sc
  \* ---- distributed refresh
  \/ Phase("rdkg1", ActDkg1(<<"rr1s", I>>, <<"rr1p", I>>, I, N, T, 0, RPolys[I], KNonce, TRUE),
           <<<<"rr1s", I>>>>, <<"rdkg2", 1>>)
  \/ Phase("rdkg2", ActDkg2(<<"rr2s", I>>, R2N(1, I), <<"rr1s", I>>, [l \in Others |-> <<"rr1p", l>>], TRUE),
           <<<<"rr2s", I>>>>, <<"rdkg3", 1>>)
  \/ Phase("rdkg3", ActDkg3(<<"kp1", I>>, <<"pkp1", I>>, <<"rr2s", I>>, [l \in Others |-> <<"rr1p", l>>],
                            [l \in Others |-> <<R2N(1, l), I>>], TRUE, <<"pkp0", I>>, <<"kp0", I>>),
           <<<<"kp1", I>>, <<"pkp1", I>>>>, <<"dealer", 0>>)
  \* ---- trusted-dealer refresh on top
  \/ /\ pc[1] = "dealer" /\ ActRefreshShares("zs", <<"pkp2", 0>>, <<"pkp1", IdSeq[1]>>, IdSeq, DCoeffs)
     /\ Go(<<"dealer_share", 1>>) /\ UNCHANGED sc
  \/ Phase("dealer_share", ActReload(<<"zs", I>>, sc.form), << >>, <<"dealer_kp", 1>>)    \* the share in transit
  \/ Phase("dealer_kp", ActRefreshShare(<<"kp2", I>>, <<"zs", I>>, <<"kp1", I>>), <<<<"kp2", I>>>>,
           IF N > T THEN <<"rp1", 1, 0>> ELSE <<"commit2", 1>>)
  \* ---- the last member's share is repaired by the first T members; repair values are saved in transit
  \/ /\ pc[1] = "rp1" /\ UNCHANGED sc
     /\ ActRepair1(DNc[HelpersC[pc[2]]], HelpersC, <<"kp2", HelpersC[pc[2]]>>, [k \in 1..(T - 1) |-> 1], XR)
     /\ Go(IF pc[2] = T THEN (IF "repair_delta" \in sc.crash THEN <<"rpd", 1, 1>> ELSE <<"rp2", 1, 0>>) ELSE <<"rp1", pc[2] + 1, 0>>)
  \/ /\ pc[1] = "rpd" /\ UNCHANGED sc           \* every delta from helper pc[2] to helper pc[3]
     /\ ActReload(<<DNc[HelpersC[pc[2]]], HelpersC[pc[3]]>>, sc.form)
     /\ Go(IF pc[3] < T THEN <<"rpd", pc[2], pc[3] + 1>> ELSE IF pc[2] < T THEN <<"rpd", pc[2] + 1, 1>> ELSE <<"rp2", 1, 0>>)
  \/ /\ pc[1] = "rp2" /\ UNCHANGED sc
     /\ ActRepair2(<<"sigmaC", HelpersC[pc[2]]>>, [k \in 1..T |-> <<DNc[HelpersC[k]], HelpersC[pc[2]]>>])
     /\ Go(IF pc[2] = T THEN (IF "repair_sigma" \in sc.crash THEN <<"rps", 1, 0>> ELSE <<"rp3", 0, 0>>) ELSE <<"rp2", pc[2] + 1, 0>>)
  \/ /\ pc[1] = "rps" /\ UNCHANGED sc
     /\ ActReload(<<"sigmaC", HelpersC[pc[2]]>>, sc.form)
     /\ Go(IF pc[2] = T THEN <<"rp3", 0, 0>> ELSE <<"rps", pc[2] + 1, 0>>)
  \/ /\ pc[1] = "rp3" /\ UNCHANGED sc
     /\ ActRepair3(<<"kp2", XR>>, [k \in 1..T |-> <<"sigmaC", HelpersC[k]>>], XR, <<"pkp2", 0>>)
     /\ Go(IF "repair_kp" \in sc.crash THEN <<"rpk", 0, 0>> ELSE <<"commit2", 1>>)
  \/ /\ pc[1] = "rpk" /\ UNCHANGED sc
     /\ ActReload(<<"kp2", XR>>, sc.form)
     /\ Go(<<"commit2", 1>>)
  \* ---- second signing session with the newest shares
  \/ Phase("commit2", ActCommit(<<"nonB", I>>, <<"commB", I>>, <<"kp2", I>>, pc[2] + 20, pc[2] + 30),
           <<<<"nonB", I>>>>, <<"package2", 1>>)
  \/ /\ pc[1] = "package2" /\ ActPackage(<<"pkgB", 0>>, Msg, [i \in Ids |-> <<"commB", i>>]) /\ Go(<<"sign2", 1>>) /\ UNCHANGED sc
  \/ Phase("sign2", ActSign(<<"zB", I>>, <<"pkgB", 0>>, <<"nonB", I>>, <<"kp2", I>>), << >>, <<"agg2", 1>>)
  \/ /\ pc[1] = "agg2" /\ ActAggregate(<<"sigB", 0>>, <<"pkgB", 0>>, [i \in Ids |-> <<"zB", i>>], <<"pkp2", 0>>, "FirstCheater")
     /\ Go(<<"verify2", 0>>) /\ UNCHANGED sc
  \/ /\ pc[1] = "verify2" /\ ActVerify(<<"pkp2", 0>>, Msg, <<"sigB", 0>>) /\ pc' = <<"done", 0>> /\ UNCHANGED sc

Spec == Init /\ [][Next]_vars

-----------------------------------------------------------------------------
(* Properties *)

\* the local state is encodable at every boundary (a zero first coefficient of a
\* refreshing polynomial, which has no encodable proof of knowledge, fails earlier)
InvEncodable == (last.op = "reload") => (last.res.ok /\ last.res.same)

\* the run completes: every step accepts the restored state
InvCompletes == (pc[1] = "done") => ((last.op = "verify" /\ last.res.ok) \/ (~last.res.ok /\ last.res.err = "GroupError"))

Emit == (EMIT /\ pc[1] = "done") => PrintT(ToJson(Script("C13")))
=============================================================================
