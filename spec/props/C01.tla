-------------------------------- MODULE C01 --------------------------------
(* C01: any t-or-more honest signers produce a signature that verifies as a *)
(* plain one.  Canonical schedule: dealer split -> key packages -> choose a *)
(* signer set S (t <= |S| <= n) and a message -> commit -> package -> sign  *)
(* -> verify every share -> aggregate -> verify.  Nondeterminism: shape,    *)
(* identifier set, key, polynomial, signer subset, message, random draws    *)
(* and every oracle answer (hence every nonce, binding factor, challenge).  *)
EXTENDS Frost, Json

CONSTANTS Shapes,        \* set of <<n, t>>
          IdSets,        \* set of identifier sets
          KeyChoices, CoeffChoices, RandChoices, Msgs,
          ListOrders,    \* orders in which the dealer is handed the identifier list: subset of {"asc","desc","rot"}
          CoordPkps,     \* the coordinator's public key package: subset of {"current", "legacy"} (no threshold field)
          BatchAtEnd,    \* the threshold signature is finally queued (twice) in a batch verifier
          MaxExtra,      \* |S| <= t + MaxExtra
          EMIT           \* print one replayable script per finished behaviour

VARIABLES pc, sc
vars == <<fvars, pc, sc>>

PKP == <<"pkp", 0>>
PKG == <<"pkg", 0>>
SIG == <<"sig", 0>>

Init == FrostInit /\ pc = <<"keygen", 0>> /\ sc = [n |-> 0]

Go(next) == pc' = IF last'.res.ok THEN next ELSE <<"done", 0>>

KeyGen ==
  /\ pc[1] = "keygen"
  /\ \E sh \in Shapes, I \in IdSets, key \in KeyChoices :
       /\ Card(I) = sh[1]
       /\ \E cs \in SeqsOf(CoeffChoices, sh[2] - 1), lo \in ListOrders :
            /\ ActSplit("ss", PKP, key, sh[1], sh[2], OrderOf(Sorted(I), lo), TRUE, cs)
            /\ sc' = [n |-> sh[1], t |-> sh[2], ids |-> Sorted(I), key |-> key]
  /\ Go(<<"kp", 1>>)

MakeKp ==
  /\ pc[1] = "kp"
  /\ LET i == sc.ids[pc[2]] IN ActKpFromSs(<<"kp", i>>, <<"ss", i>>)
  /\ Go(IF pc[2] = sc.n THEN <<"choose", 0>> ELSE <<"kp", pc[2] + 1>>)
  /\ UNCHANGED sc

Choose ==
  /\ pc[1] = "choose"
  /\ \E S \in (IF sc.t = sc.n THEN {{sc.ids[k] : k \in 1..sc.n}}      \* (no 2^n enumeration in size sweeps)
                ELSE SUBSET {sc.ids[k] : k \in 1..sc.n}), m \in Msgs :
       /\ Card(S) >= sc.t /\ Card(S) <= sc.t + MaxExtra
       /\ \E ck \in CoordPkps : sc' = sc @@ [S |-> Sorted(S), msg |-> m, coord |-> ck]
  /\ pc' = <<"mkleg", 0>>
  /\ UNCHANGED fvars

CPKP == IF sc.coord = "legacy" THEN <<"pkpLeg", 0>> ELSE PKP
MkLegacy ==
  /\ pc[1] = "mkleg"
  /\ IF sc.coord = "legacy" THEN ActLieMin(<<"pkpLeg", 0>>, PKP, -1) ELSE UNCHANGED fvars
  /\ pc' = <<"commit", 1>>
  /\ UNCHANGED sc

DoCommit ==
  /\ pc[1] = "commit"
  /\ LET i == sc.S[pc[2]] IN
       \E b1 \in RandChoices, b2 \in RandChoices :
          ActCommit(<<"non", i>>, <<"comm", i>>, <<"kp", i>>, b1, b2)
  /\ Go(IF pc[2] = Len(sc.S) THEN <<"package", 0>> ELSE <<"commit", pc[2] + 1>>)
  /\ UNCHANGED sc

SSet == {sc.S[k] : k \in DOMAIN sc.S}

DoPackage ==
  /\ pc[1] = "package"
  /\ ActPackage(PKG, sc.msg, [i \in SSet |-> <<"comm", i>>])
  /\ Go(<<"sign", 1>>)
  /\ UNCHANGED sc

DoSign ==
  /\ pc[1] = "sign"
  /\ LET i == sc.S[pc[2]] IN ActSign(<<"z", i>>, PKG, <<"non", i>>, <<"kp", i>>)
  /\ Go(IF pc[2] = Len(sc.S) THEN <<"vshare", 1>> ELSE <<"sign", pc[2] + 1>>)
  /\ UNCHANGED sc

DoVerifyShare ==
  /\ pc[1] = "vshare"
  /\ LET i == sc.S[pc[2]] IN ActVerifyShare(i, i, PKP, <<"z", i>>, PKG)
  /\ Go(IF pc[2] = Len(sc.S) THEN <<"aggregate", 0>> ELSE <<"vshare", pc[2] + 1>>)
  /\ UNCHANGED sc

DoAggregate ==
  /\ pc[1] = "aggregate"
  /\ ActAggregate(SIG, PKG, [i \in SSet |-> <<"z", i>>], CPKP, "FirstCheater")
  /\ Go(<<"verify", 0>>)
  /\ UNCHANGED sc

DoVerify ==
  /\ pc[1] = "verify"
  /\ ActVerify(PKP, sc.msg, SIG)
  /\ pc' = IF BatchAtEnd /\ last'.res.ok THEN <<"batch", 0>> ELSE <<"done", 0>>
  /\ UNCHANGED sc

\* a threshold signature is an ordinary one for the batch verifier too (as handed over by aggregate, not
\* re-decoded from its wire form)
DoBatch ==
  /\ pc[1] = "batch"
  /\ LET it == [vk |-> PKP, sig |-> SIG, msg |-> sc.msg] IN ActBatch(<<it, it>>, <<1, 2>>)
  /\ pc' = <<"done", 0>>
  /\ UNCHANGED sc

Next == DoBatch \/ MkLegacy \/ KeyGen \/ MakeKp \/ Choose \/ DoCommit \/ DoPackage \/ DoSign
        \/ DoVerifyShare \/ DoAggregate \/ DoVerify

Spec == Init /\ [][Next]_vars

-----------------------------------------------------------------------------
(* Properties *)

Committed == {i \in SSet : Has(<<"non", i>>)}
ZeroNonce == \E i \in Committed : env[<<"non", i>>].hiding = 0 \/ env[<<"non", i>>].binding = 0

\* the group commitment in terms of the signers' secret nonces (independent of
\* the library's way of computing it), once all binding factors are sampled
RhoKnown == Has(PKG) /\ ~ZeroNonce /\ LET b == BindingFactors(ro, env[PKG], env[PKP].vk) IN ~IsNeed(b) /\ b.ok
Rho      == BindingFactors(ro, env[PKG], env[PKP].vk).rho
NonceSum == SumOver(SSet, LAMBDA i : Add(env[<<"non", i>>].hiding, Mul(Rho[i], env[<<"non", i>>].binding)))

\* the only way an honest run can fail: a zero nonce (identity commitment) or an
\* identity group commitment; probability ~1/q in the toy field, 2^-250 otherwise
Degenerate == "S" \in DOMAIN sc /\ (ZeroNonce \/ (RhoKnown /\ NonceSum = 0))

\* every library call of an honest run succeeds unless the run is degenerate,
\* and a degenerate run fails with an error (never a wrong success)
InvHonestOk == (~last.res.ok) => (Degenerate /\ last.res.err = "GroupError")

\* the released signature satisfies the plain Schnorr equation z = r + c*s for
\* the dealer's secret s and the sum r of the signers' nonces
InvSchnorr ==
  (last.op = "aggregate" /\ last.res.ok) =>
     LET c == ro[KeyH2(last.res.R, sc.key, sc.msg)]
     IN /\ last.res.R = NonceSum
        /\ last.res.z = Add(NonceSum, Mul(c, sc.key))

\* keygen consistency used by the run
InvKeys ==
  \A k \in 1..sc.n : Has(<<"kp", sc.ids[k]>>) =>
     LET kp == env[<<"kp", sc.ids[k]>>] IN
       /\ kp.vs = kp.share /\ kp.vs = env[PKP].vs[kp.id] /\ kp.vk = sc.key /\ kp.min = sc.t

Emit == (EMIT /\ pc[1] = "done") => PrintT(ToJson(Script("C01")))
=============================================================================
