-------------------------------- MODULE C03 --------------------------------
(* C03: fewer than the threshold of key holders can neither sign nor        *)
(* recover the key.  A set K of 1..t-1 holders runs a signing session.      *)
(*  honest fields : sign() refuses; aggregate refuses; reconstruct refuses  *)
(*  lowered fields: every cooperating party lies about min_signers in its   *)
(*   own key material; signing then goes through, and what aggregate does   *)
(*   is decided by arithmetic alone: it releases a signature iff the K      *)
(*   shares happen to interpolate to the group secret.                      *)
EXTENDS Frost, Json

CONSTANTS Shapes, IdSets, KeyChoices, CoeffChoices, RandChoices, Msg, LiePkp, EMIT

VARIABLES pc, sc
vars == <<fvars, pc, sc>>
PKP  == <<"pkp", 0>>
PKPL == <<"pkpL", 0>>
PKG  == <<"pkg", 0>>

Init == FrostInit /\ pc = <<"keygen", 0>> /\ sc = [n |-> 0]
Go(next) == pc' = IF last'.res.ok THEN next ELSE <<"done", 0>>
KSet == {sc.K[k] : k \in DOMAIN sc.K}
LastK(k) == k = Len(sc.K)

KeyGen ==
  /\ pc[1] = "keygen"
  /\ \E sh \in Shapes, I \in IdSets, key \in KeyChoices :
       /\ Card(I) = sh[1]
       /\ \E cs \in SeqsOf(CoeffChoices, sh[2] - 1) :
            /\ ActSplit("ss", PKP, key, sh[1], sh[2], Sorted(I), TRUE, cs)
            /\ sc' = [n |-> sh[1], t |-> sh[2], ids |-> Sorted(I), key |-> key, cs |-> cs]
  /\ Go(<<"kp", 1>>)

MakeKp ==
  /\ pc[1] = "kp"
  /\ LET i == sc.ids[pc[2]] IN ActKpFromSs(<<"kp", i>>, <<"ss", i>>)
  /\ Go(IF pc[2] = sc.n THEN <<"choose", 0>> ELSE <<"kp", pc[2] + 1>>)
  /\ UNCHANGED sc

\* a coalition below the threshold
Choose ==
  /\ pc[1] = "choose"
  /\ \E K \in SUBSET {sc.ids[k] : k \in 1..sc.n} :
       /\ Card(K) >= 1 /\ Card(K) < sc.t
       /\ sc' = sc @@ [K |-> Sorted(K)]
  /\ pc' = <<"commit", 1>>
  /\ UNCHANGED fvars

DoCommit ==
  /\ pc[1] = "commit"
  /\ LET i == sc.K[pc[2]] IN
       \E b1 \in RandChoices, b2 \in RandChoices :
          ActCommit(<<"non", i>>, <<"comm", i>>, <<"kp", i>>, b1, b2)
  /\ Go(IF LastK(pc[2]) THEN <<"package", 0>> ELSE <<"commit", pc[2] + 1>>)
  /\ UNCHANGED sc

DoPackage ==
  /\ pc[1] = "package"
  /\ ActPackage(PKG, Msg, [i \in KSet |-> <<"comm", i>>])
  /\ Go(<<"signH", 1>>)
  /\ UNCHANGED sc

\* honest key package: must refuse
SignHonest ==
  /\ pc[1] = "signH"
  /\ LET i == sc.K[pc[2]] IN ActSign(<<"zH", i>>, PKG, <<"non", i>>, <<"kp", i>>)
  /\ pc' = IF LastK(pc[2]) THEN <<"reconH", 0>> ELSE <<"signH", pc[2] + 1>>
  /\ UNCHANGED sc

ReconHonest ==
  /\ pc[1] = "reconH"
  /\ ActReconstruct([k \in DOMAIN sc.K |-> <<"kp", sc.K[k]>>])
  /\ pc' = <<"lie", 1>>
  /\ UNCHANGED sc

\* every member of the coalition lowers min_signers in its own key package
Lie ==
  /\ pc[1] = "lie"
  /\ LET i == sc.K[pc[2]] IN ActLieMin(<<"kpL", i>>, <<"kp", i>>, Len(sc.K))
  /\ pc' = IF LastK(pc[2]) THEN <<"signL", 1>> ELSE <<"lie", pc[2] + 1>>
  /\ UNCHANGED sc

SignLied ==
  /\ pc[1] = "signL"
  /\ LET i == sc.K[pc[2]] IN ActSign(<<"z", i>>, PKG, <<"non", i>>, <<"kpL", i>>)
  /\ Go(IF LastK(pc[2]) THEN <<"aggH", 0>> ELSE <<"signL", pc[2] + 1>>)
  /\ UNCHANGED sc

Shares == [i \in KSet |-> <<"z", i>>]

\* coordinator with the honest public key package: must refuse
AggModesH == <<"FirstCheater", "Disabled", "AllCheaters">>
AggHonest ==
  /\ pc[1] = "aggH"
  /\ ActAggregate(<<"sig", 0>>, PKG, Shares, PKP, AggModesH[pc[2] + 1])
  /\ pc' = IF pc[2] = 2 THEN <<"liepkp", 0>> ELSE <<"aggH", pc[2] + 1>>
  /\ UNCHANGED sc

\* coordinator lies too: threshold lowered (or absent, as in a pre-3.0 package)
LiePkpStep ==
  /\ pc[1] = "liepkp"
  /\ \E m \in LiePkp : ActLieMin(PKPL, PKP, IF m = "none" THEN -1 ELSE Len(sc.K))
  /\ pc' = <<"aggL", 1>>
  /\ UNCHANGED sc

AggModes == <<"Disabled", "FirstCheater", "AllCheaters">>
AggLied ==
  /\ pc[1] = "aggL"
  /\ ActAggregate(<<"sig", pc[2]>>, PKG, Shares, PKPL, AggModes[pc[2]])
  /\ pc' = IF last'.res.ok THEN <<"verify", pc[2]>>
           ELSE IF pc[2] = 3 THEN <<"reconL", 0>> ELSE <<"aggL", pc[2] + 1>>
  /\ UNCHANGED sc

DoVerify ==
  /\ pc[1] = "verify"
  /\ ActVerify(PKP, Msg, <<"sig", pc[2]>>)
  /\ pc' = IF pc[2] = 3 THEN <<"reconL", 0>> ELSE <<"aggL", pc[2] + 1>>
  /\ UNCHANGED sc

ReconLied ==
  /\ pc[1] = "reconL"
  /\ ActReconstruct([k \in DOMAIN sc.K |-> <<"kpL", sc.K[k]>>])
  /\ pc' = <<"done", 0>>
  /\ UNCHANGED sc

\* The threshold a signer enforces is the one recorded in its key package, however it
\* was obtained.  A holder whose share is repaired with the help of a pre-3.0 public key
\* package (no recorded threshold) must not end up with a package that enforces nothing:
\* repair_share_part3 refuses such a package.
HSeq == SubSeq(sc.ids, 1, sc.t)              \* helpers: the first t participants
X    == sc.ids[sc.n]                         \* the repaired participant (needs n > t)
DN == [i \in 1..16 |-> "dfrom" \o ToString(i)]
RepairLegacy ==
  /\ pc[1] = "choose" /\ sc.n > sc.t
  /\ ActLieMin(<<"pkpLegacy", 0>>, PKP, -1)
  /\ pc' = <<"rl1", 1>> /\ UNCHANGED sc
Rl1 ==
  /\ pc[1] = "rl1"
  /\ LET i == HSeq[pc[2]] IN ActRepair1(DN[i], HSeq, <<"kp", i>>, [k \in 1..(sc.t - 1) |-> 1], X)
  /\ Go(IF pc[2] = sc.t THEN <<"rl2", 1>> ELSE <<"rl1", pc[2] + 1>>) /\ UNCHANGED sc
Rl2 ==
  /\ pc[1] = "rl2"
  /\ LET j == HSeq[pc[2]] IN ActRepair2(<<"sigma", j>>, [k \in 1..sc.t |-> <<DN[HSeq[k]], j>>])
  /\ Go(IF pc[2] = sc.t THEN <<"rl3", 0>> ELSE <<"rl2", pc[2] + 1>>) /\ UNCHANGED sc
Rl3 ==
  /\ pc[1] = "rl3"
  /\ ActRepair3(<<"kpR", X>>, [k \in 1..sc.t |-> <<"sigma", HSeq[k]>>], X, <<"pkpLegacy", 0>>)
  /\ pc' = <<"done", 0>> /\ UNCHANGED sc

\* The same for a distributed refresh run with a lower threshold while the old public key package is a
\* pre-3.0 one: the threshold recorded in the participant's own key package decides, the refresh is refused,
\* nobody ends up with a key package that enforces less than t.
R2F == [i \in 1..16 |-> "rf2from" \o ToString(i)]
IdSetAll == {sc.ids[k] : k \in 1..sc.n}
RefreshLegacy ==
  /\ pc[1] = "choose" /\ sc.t >= 3
  /\ ActLieMin(<<"pkpLegacy", 0>>, PKP, -1)
  /\ pc' = <<"rf1", 1>> /\ UNCHANGED sc
Rf1 ==
  /\ pc[1] = "rf1"
  /\ LET i == sc.ids[pc[2]] IN
       ActDkg1(<<"rf1s", i>>, <<"rf1p", i>>, i, sc.n, sc.t - 1, 0, [k \in 1..(sc.t - 2) |-> 1], 2, TRUE)
  /\ Go(IF pc[2] = sc.n THEN <<"rf2", 1>> ELSE <<"rf1", pc[2] + 1>>) /\ UNCHANGED sc
Rf2 ==
  /\ pc[1] = "rf2"
  /\ LET i == sc.ids[pc[2]] IN
       ActDkg2(<<"rf2s", i>>, R2F[i], <<"rf1s", i>>, [l \in IdSetAll \ {i} |-> <<"rf1p", l>>], TRUE)
  /\ Go(IF pc[2] = sc.n THEN <<"rf3", 0>> ELSE <<"rf2", pc[2] + 1>>) /\ UNCHANGED sc
Rf3 ==
  /\ pc[1] = "rf3"
  /\ LET i == sc.ids[1] IN
       ActDkg3(<<"kpF", i>>, <<"pkpF", i>>, <<"rf2s", i>>, [l \in IdSetAll \ {i} |-> <<"rf1p", l>>],
               [l \in IdSetAll \ {i} |-> <<R2F[l], i>>], TRUE, <<"pkpLegacy", 0>>, <<"kp", i>>)
  /\ pc' = <<"done", 0>> /\ UNCHANGED sc

Next == RefreshLegacy \/ Rf1 \/ Rf2 \/ Rf3 \/ KeyGen \/ MakeKp \/ Choose \/ RepairLegacy \/ Rl1 \/ Rl2 \/ Rl3 \/ DoCommit \/ DoPackage \/ SignHonest \/ ReconHonest \/ Lie
        \/ SignLied \/ AggHonest \/ LiePkpStep \/ AggLied \/ DoVerify \/ ReconLied
Spec == Init /\ [][Next]_vars

-----------------------------------------------------------------------------
(* Properties *)

Poly == <<sc.key>> \o sc.cs
ShareOf(i) == EvalPoly(Poly, i)
\* what the coalition's shares interpolate to at 0
CoalitionValue == Interp0(KSet, [i \in KSet |-> ShareOf(i)])
\* the only way below-threshold material can work: the shares interpolate to the secret
Coincidence == CoalitionValue = sc.key

\* honest fields: the signer, the coordinator and reconstruct refuse
InvRefuse ==
  /\ (last.op = "sign" /\ pc[1] \in {"signH", "reconH"}) => ~last.res.ok
  \* (the coordinator refuses on the count alone, in every detection mode, before any signature arithmetic)
  /\ (last.op = "aggregate" /\ (pc[1] = "liepkp" \/ (pc[1] = "aggH" /\ pc[2] > 0))) =>
        (~last.res.ok /\ last.res.err = "IncorrectNumberOfShares")
  /\ (last.op = "reconstruct" /\ pc[1] = "lie") => ~last.res.ok

\* a repair through a public package without threshold yields no key package
InvNoThresholdlessRepair == (last.op = "repair3" /\ pc[1] = "done") => ~last.res.ok

\* a refresh cannot lower the threshold a key package enforces, whatever the public package says
InvNoThresholdLoweringRefresh == (last.op = "dkg3" /\ pc[1] = "done") => ~last.res.ok

\* lowered fields: a signature is released iff the coalition's shares happen to
\* interpolate to the secret; then, and only then, it verifies under the group key
InvNoForgery ==
  /\ (last.op = "aggregate" /\ pc[1] \in {"verify", "aggL", "reconL"} /\ "K" \in DOMAIN sc) =>
        (last.res.ok <=> Coincidence)
  /\ (last.op = "verify") => last.res.ok
  /\ (last.op = "reconstruct" /\ pc[1] = "done") =>
        (last.res.ok /\ last.res.key = CoalitionValue /\ (last.res.key = sc.key <=> Coincidence))

Emit == (EMIT /\ pc[1] = "done") =>
   PrintT(ToJson(Script("C03") @@ [probe |-> "subthreshold", gen_accept |-> FALSE,
                                     accepted |-> ("K" \in DOMAIN sc /\ Coincidence)]))
=============================================================================
