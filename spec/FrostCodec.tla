---------------------------- MODULE FrostCodec ----------------------------
(* Byte-level encodings of the toy suite and the preimage layouts of        *)
(* RFC 9591 as the library composes them.                                   *)
(* Mirrors: harness/src/toy.rs (2-byte big-endian scalars and elements),    *)
(* round1.rs:401-413 (encode_group_commitments), lib.rs:118-133 (challenge),*)
(* lib.rs:413-445 (binding_factor_preimages), round1.rs:77-90 (nonce),      *)
(* keys/dkg.rs:401-418 (PoK challenge), frost-rerandomized (randomizer).    *)
EXTENDS FrostField

CONSTANTS P,    \* prime modulus of the ambient group Z_P^*, P = kQ+1
          GEN   \* generator of the order-Q subgroup

RECURSIVE PowP(_,_)
PowP(a,k) == IF k = 0 THEN 1
             ELSE LET h == PowP(a, k \div 2) IN
                  IF k % 2 = 0 THEN (h * h) % P ELSE (((h * h) % P) * a) % P

\* element value of discrete log x; the identity (x = 0) has value 1
ElemVal(x) == PowP(GEN, x)

U16(v)        == << v \div 256, v % 256 >>
ScalarBytes(v) == U16(v)
IdBytes(i)     == U16(i)
\* the identity (dlog 0) has no encoding: callers test IsIdent first
IsIdent(x)    == x = 0
ElemBytes(x)  == U16(ElemVal(x))

\* 32 random bytes are modelled as 31 zero bytes followed by a chosen byte
Rand32(b) == [k \in 1..32 |-> IF k = 32 THEN b ELSE 0]

RECURSIVE Concat(_)
Concat(ss) == IF ss = <<>> THEN <<>> ELSE Head(ss) \o Concat(Tail(ss))

\* comms : function id -> [D |-> dlog, E |-> dlog]; ascending numeric id order
ListHasIdent(comms) == \E i \in DOMAIN comms : IsIdent(comms[i].D) \/ IsIdent(comms[i].E)
\* the first identity the encoder meets decides nothing observable: any -> GroupError
EncodeList(comms) ==
  LET ids == Sorted(DOMAIN comms)
  IN Concat([k \in 1..Len(ids) |->
        IdBytes(ids[k]) \o ElemBytes(comms[ids[k]].D) \o ElemBytes(comms[ids[k]].E)])

KeyH3(rand32, share)       == << "H3", rand32 \o ScalarBytes(share) >>
KeyH4(msg)                 == << "H4", msg >>
KeyH5(comms)               == << "H5", EncodeList(comms) >>
KeyH1(vk, h4, h5, id)      == << "H1", ElemBytes(vk) \o <<h4>> \o <<h5>> \o IdBytes(id) >>
KeyH2(R, vk, msg)          == << "H2", ElemBytes(R) \o ElemBytes(vk) \o msg >>
KeyHDKG(id, phi0, R)       == << "HDKG", IdBytes(id) \o ElemBytes(phi0) \o ElemBytes(R) >>
KeyHR(seed, comms)         == << "HR", seed \o EncodeList(comms) >>
KeyHID(s)                  == << "HID", s >>

\* signature encoding: element || scalar (identity R unencodable)
SigBytes(R, z) == ElemBytes(R) \o ScalarBytes(z)
=============================================================================
