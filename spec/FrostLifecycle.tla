--------------------------- MODULE FrostLifecycle ---------------------------
(* Life cycle of secret-bearing objects.  Each object owns storage cells    *)
(* (inline, or heap blocks for vectors) whose content is "secret", "zero"   *)
(* or "public".  Actions: Create, Zeroize (on request), Drop, DebugFmt.     *)
(* Table: which clauses apply to which type, from the property statement    *)
(* and book/src/user/zeroization.md: the top-level structs implement        *)
(* Zeroize and ZeroizeOnDrop; SigningShare and Nonce are Copy -- they offer *)
(* zeroize() but, as documented, are not wiped on drop; SigningKey wipes on *)
(* drop (manual Drop) and offers no zeroize().                              *)
EXTENDS Naturals, FiniteSets, TLC

Types == {"SigningKey", "SigningShare", "Nonce", "SecretShare", "KeyPackage", "SigningNonces",
          "dkg::round1::SecretPackage", "dkg::round2::SecretPackage", "dkg::round2::Package"}

\* clauses
OffersZeroize(ty) == ty # "SigningKey"
WipesOnDrop(ty)   == ty \notin {"SigningShare", "Nonce"}
HasDebug(ty)      == ty # "Nonce"
\* number of secret cells; a vector of coefficients lives in its own heap block
SecretCells(ty) == IF ty = "SigningNonces" THEN 2 ELSE IF ty = "dkg::round1::SecretPackage" THEN 3 ELSE 1

VARIABLES objs   \* object id -> [ty, cells : 1..n -> content, alive, debug_shown]
vars == <<objs>>

CONSTANT MaxObjs

Init == objs = << >>

Create(ty) ==
  /\ Cardinality(DOMAIN objs) < MaxObjs
  /\ LET id == Cardinality(DOMAIN objs) + 1 IN
     objs' = (id :> [ty |-> ty, cells |-> [k \in 1..SecretCells(ty) |-> "secret"], alive |-> TRUE,
                     shown |-> "nothing"]) @@ objs

Zeroize(id) ==
  /\ id \in DOMAIN objs /\ objs[id].alive /\ OffersZeroize(objs[id].ty)
  /\ objs' = [objs EXCEPT ![id].cells = [k \in DOMAIN @ |-> "zero"]]

\* dropping frees the storage; a wiping type overwrites its secrets first
Drop(id) ==
  /\ id \in DOMAIN objs /\ objs[id].alive
  /\ objs' = [objs EXCEPT ![id].alive = FALSE,
                          ![id].cells = IF WipesOnDrop(objs[id].ty) THEN [k \in DOMAIN @ |-> "zero"] ELSE @]

\* the debug rendering shows public fields and a redaction marker for secret ones
DebugFmt(id) ==
  /\ id \in DOMAIN objs /\ objs[id].alive /\ HasDebug(objs[id].ty)
  /\ objs' = [objs EXCEPT ![id].shown = "redacted"]

Next == (\E ty \in Types : Create(ty)) \/ (\E id \in DOMAIN objs : Zeroize(id) \/ Drop(id) \/ DebugFmt(id))
Spec == Init /\ [][Next]_vars

\* freed storage of a wiping type holds no secret
InvNoResidue == \A id \in DOMAIN objs :
   (~objs[id].alive /\ WipesOnDrop(objs[id].ty)) => \A k \in DOMAIN objs[id].cells : objs[id].cells[k] # "secret"
\* debug output never shows a secret
InvDebug == \A id \in DOMAIN objs : objs[id].shown # "secret"
=============================================================================
