#!/usr/bin/env python3
"""seeded_table.py [r2]  ->  markdown table of the seeded changes of one round (from seeded/*/meta.json)."""
import glob, json, os, sys

tag = sys.argv[1] if len(sys.argv) > 1 else ""
rows = []
for p in sorted(glob.glob("/verif/seeded/*/meta.json")):
    sid = os.path.basename(os.path.dirname(p))
    is_tagged = "-r" in sid
    if (tag and f"-{tag}" not in sid) or (not tag and is_tagged):
        continue
    m = json.load(open(p))
    by = ", ".join(m.get("detected_by") or []) or "(not detected)"
    if m.get("initially_missed"):
        by += " (after strengthening)"
    first = ""
    for k in m.get("detected_by") or []:
        f = (m["checks"][k].get("first") or [""])[0]
        if f:
            first = f
            break
    cut = lambda s, n: (s[:n] + "...") if len(s) > n else s
    rows.append(f"| `{sid}` | {cut((m.get('breaks') or '').replace('|', '/').replace(chr(10), ' '), 230)} | "
                f"{cut((m.get('needs_to_manifest') or '').replace('|', '/').replace(chr(10), ' '), 160)} | {by} | "
                f"{cut(first.replace('|', '/'), 150)} |")
print("| Change | What it breaks | What it needs to manifest | Reported by | First line of the report |")
print("|---|---|---|---|---|")
print("\n".join(rows))
n = len(rows)
missed = sum(1 for r in rows if "after strengthening" in r)
nd = sum(1 for r in rows if "(not detected)" in r)
print(f"\n<!-- {n} changes, {n - missed - nd} detected as the checks were, {missed} after strengthening, {nd} not detected -->")
