#!/bin/bash
# runs every check once and prints one line per property (exit code, wall time)
cd "$(dirname "$0")/.."
tier=${1:-quick}
mkdir -p .work
if [ -n "$VP_RUN_REPO" ]; then
  # a background snapshot run: build against the snapshot of the repository, not /repo itself
  sed -i "s#\"/repo/#\"$VP_RUN_REPO/#" harness/Cargo.toml
fi
for p in C01 C02 C03 C04 C05 C06 C07 C08 C09 C10 C11 C12 C13 C14 C15 C16 C17 C18 C19 C20; do
  s=$(date +%s)
  ./check $p --tier $tier > .work/runall-$p.log 2>&1
  rc=$?
  e=$(date +%s)
  echo "$p exit=$rc $((e-s))s $(grep -c '^VIOLATION' .work/runall-$p.log) violations $(grep -c '^KNOWN-FINDING' .work/runall-$p.log) known $(grep -m1 'TOOL-ERROR' .work/runall-$p.log | cut -c1-200)"
done
