#!/bin/bash
# runs every quick check once and prints one line per property (exit code, wall time)
cd "$(dirname "$0")/.."
tier=${1:-quick}
for p in C01 C02 C03 C04 C05 C06 C07 C08 C09 C10 C11 C12 C13 C14 C15 C16 C17 C18 C19 C20; do
  s=$(date +%s)
  ./check $p --tier $tier > .work/runall-$p.log 2>&1
  rc=$?
  e=$(date +%s)
  echo "$p exit=$rc $((e-s))s $(grep -c '^VIOLATION' .work/runall-$p.log) violations $(grep -c '^KNOWN-FINDING' .work/runall-$p.log) known"
done
