#!/usr/bin/env python3
"""seed_recheck.py <seeded-id> [--note "what was strengthened"] [check ids...]
Re-runs checks against a stored seeded change after the machinery was strengthened:
git -C /repo apply; ./check <id> --tier quick; git -C /repo checkout -- .  Updates meta.json."""
import json, subprocess, sys, time

args = sys.argv[1:]
sid = args.pop(0)
note = None
if args and args[0] == "--note":
    args.pop(0)
    note = args.pop(0)
d = f"/verif/seeded/{sid}"
meta = json.load(open(f"{d}/meta.json"))
checks = args or [meta["property"]]
assert subprocess.run("git -C /repo status --porcelain", shell=True, capture_output=True, text=True).stdout.strip() == "", "repo not clean"
was_detected = bool(meta.get("detected_by"))
subprocess.run(f"git -C /repo apply {d}/patch.diff", shell=True, check=True)
try:
    for chk in checks:
        t0 = time.time()
        p = subprocess.run(f"./check {chk} --tier quick", shell=True, cwd="/verif", capture_output=True, text=True, timeout=5400)
        vio = [l for l in p.stdout.splitlines() if l.startswith("VIOLATION")]
        detail = [l.strip() for l in p.stdout.splitlines() if l.startswith("  ")][:2]
        tool = [l for l in p.stderr.splitlines() if l.startswith("TOOL-ERROR")]
        meta.setdefault("checks", {})[chk] = {"exit": p.returncode, "violations": len(vio), "first": detail, "tool_error": tool[:1],
                                              "wall_s": round(time.time() - t0)}
        print(chk, p.returncode, len(vio), detail[:1], tool[:1])
finally:
    subprocess.run("git -C /repo checkout -- .", shell=True)
meta["detected_by"] = [k for k, v in meta["checks"].items() if v["exit"] == 1]
if not was_detected:
    meta["initially_missed"] = True
if note:
    meta["strengthening"] = note
json.dump(meta, open(f"{d}/meta.json", "w"), indent=1)
print("DETECTED_BY", meta["detected_by"])
