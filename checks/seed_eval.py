#!/usr/bin/env python3
"""[SEED_ROOT=/tmp/mut2 SEED_TAG=r2] seed_eval.py <PID> <m1|m2> [extra check ids...]
Confirms a seeded change produced by a sub-agent in its scratch worktree /tmp/mut/<PID>
(compiles, whole pinned suite passes, demonstration fails with it and passes without), then
applies it to /repo, runs the checks, reverts /repo, and stores everything under /verif/seeded/."""
import json, os, re, shutil, subprocess, sys, time

pid, m = sys.argv[1], sys.argv[2]
extra = sys.argv[3:]
ROOT = os.environ.get("SEED_ROOT", "/tmp/mut")     # scratch worktrees of the sub-agents
TAG = os.environ.get("SEED_TAG", "")               # e.g. "r2" for the second round
wt = f"{ROOT}/{pid}"
out = f"{wt}/OUT"
env = dict(os.environ, CARGO_TARGET_DIR=f"{wt}/target", CARGO_NET_OFFLINE="true")


def sh(cmd, cwd=None, timeout=3600):
    p = subprocess.run(cmd, shell=True, cwd=cwd, capture_output=True, text=True, env=env, timeout=timeout, executable="/bin/bash")
    return p.returncode, p.stdout + p.stderr


diff = f"{out}/{m}.diff"
demo = f"{out}/{m}_demo.rs"
meta_in = json.load(open(f"{out}/{m}.json")) if os.path.exists(f"{out}/{m}.json") else {}
first = open(demo).readline()
mm = re.search(r"((frost-[a-z0-9-]+)/tests/[A-Za-z0-9_]+\.rs)", first)
if not mm:
    txt = open(demo).read(600)
    mm = re.search(r"((frost-[a-z0-9-]+)/tests/[A-Za-z0-9_]+\.rs)", txt)
rel, crate = mm.group(1), mm.group(2)
testname = os.path.basename(rel)[:-3]
res = {"property": pid, "mutant": m}

# clean worktree, remove all demo files, then place only this demo
sh("git checkout -- . ; find . -path ./target -prune -o -name 'demo_*.rs' -print | xargs -r rm -f", cwd=wt)
rc, o = sh(f"git apply --check {diff}", cwd=wt)
res["applies"] = rc == 0
# 1. with the change: suite must pass, demo must fail
sh(f"git apply {diff}", cwd=wt)
rc, o = sh("cargo nextest run --workspace --no-fail-fast --tool-config-file pb:/w/lib/nextest.toml --profile pb --test-threads 8 --offline 2>&1 | tail -5", cwd=wt)
mt = re.search(r"(\d+) tests run: (\d+) passed", o)
res["suite_with_change"] = o.strip().splitlines()[-1] if o.strip() else "?"
res["suite_passes_with_change"] = bool(mt and mt.group(1) == mt.group(2) and int(mt.group(1)) >= 565)
shutil.copy(demo, f"{wt}/{rel}")
rc, o = sh(f"cargo test -p {crate} --offline -j 8 --test {testname} 2>&1", cwd=wt)
res["demo_fails_with_change"] = rc != 0 and ("test result: FAILED" in o)
res["demo_with_change_tail"] = o[-400:]
# 2. without the change: demo must pass
sh(f"git apply -R {diff}", cwd=wt)
rc, o = sh(f"cargo test -p {crate} --offline -j 8 --test {testname} 2>&1", cwd=wt)
res["demo_passes_without"] = rc == 0 and "test result: ok" in o
os.remove(f"{wt}/{rel}")
sh("git checkout -- .", cwd=wt)
confirmed = res["applies"] and res["suite_passes_with_change"] and res["demo_fails_with_change"] and res["demo_passes_without"]
res["confirmed"] = confirmed
print(json.dumps({k: v for k, v in res.items() if k != "demo_with_change_tail"}))

# 3. our checks against it
caught = {}
if confirmed:
    rc, o = sh("git -C /repo status --porcelain")
    assert o.strip() == "", "repo not clean"
    sh(f"git -C /repo apply {diff}")
    try:
        for chk in [pid] + extra:
            t0 = time.time()
            p = subprocess.run(f"./check {chk} --tier quick", shell=True, cwd="/verif", capture_output=True, text=True, timeout=5400)
            vio = [l for l in p.stdout.splitlines() if l.startswith("VIOLATION")]
            detail = [l.strip() for l in p.stdout.splitlines() if l.startswith("  ")][:3]
            tool = [l for l in p.stderr.splitlines() if l.startswith("TOOL-ERROR")]
            caught[chk] = {"exit": p.returncode, "violations": len(vio), "first": detail[:2], "tool_error": tool[:1],
                           "wall_s": round(time.time() - t0)}
            print(chk, caught[chk]["exit"], len(vio), detail[:1], tool[:1])
    finally:
        sh("git -C /repo checkout -- .")
res["checks"] = caught
sid = f"{pid}-{TAG}{m}"
d = f"/verif/seeded/{sid}"
os.makedirs(d, exist_ok=True)
shutil.copy(diff, f"{d}/patch.diff")
shutil.copy(demo, f"{d}/demo.rs")
meta = {"property": pid, "id": sid, "breaks": meta_in.get("what_it_breaks"), "needs_to_manifest": meta_in.get("needs_to_manifest"),
        "files_changed": meta_in.get("files_changed"), "demo_placement": rel,
        "demo_cmd": f"cargo test -p {crate} --offline --test {testname}",
        "confirmed_by_me": {k: res[k] for k in ("applies", "suite_passes_with_change", "suite_with_change", "demo_fails_with_change", "demo_passes_without", "confirmed")},
        "what_i_ran": ["in the scratch worktree: git apply; the pinned nextest suite (565 tests); the demo with and without the change",
                       "in /repo: git apply; ./check <id> --tier quick; git checkout -- ."],
        "checks": caught,
        "detected_by": [k for k, v in caught.items() if v["exit"] == 1]}
json.dump(meta, open(f"{d}/meta.json", "w"), indent=1)
print("DETECTED_BY", meta["detected_by"])
