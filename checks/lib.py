"""Driver library for the FROST verification checks (python3, stdlib only)."""
import json, os, re, shutil, subprocess, sys, time, hashlib

ROOT = os.path.dirname(os.path.dirname(os.path.abspath(__file__)))
SPEC = os.path.join(ROOT, "spec")
HARNESS = os.path.join(ROOT, "harness")
FV = os.path.join(HARNESS, "target", "debug", "fv")
JAR = "/opt/veriftools/tla/tla2tools.jar:/opt/veriftools/tla/CommunityModules-deps.jar"
WORK = os.path.join(ROOT, ".work")
REPLAYS = os.path.join(ROOT, "replays")
EVIDENCE = os.path.join(ROOT, "evidence")

TOY = {5: (11, 4), 7: (29, 16), 11: (23, 4), 13: (53, 16), 251: (503, 4), 257: (1543, 64), 23099: (46199, 4)}


class ToolError(Exception):
    """The machinery failed (build error, TLC crash, ...): exit 2, never a verdict."""


def log(*a):
    print(*a, file=sys.stderr, flush=True)


def sh(cmd, cwd=None, timeout=None, env=None):
    e = dict(os.environ)
    e.update({"CARGO_NET_OFFLINE": "true"})
    if env:
        e.update(env)
    p = subprocess.run(cmd, shell=True, cwd=cwd, capture_output=True, text=True, timeout=timeout,
                       executable="/bin/bash", env=e)
    return p.returncode, p.stdout, p.stderr


_built = False


def build_harness():
    """Rebuild the harness against /repo's current working tree."""
    global _built
    if _built:
        return
    t0 = time.time()
    rc, out, err = sh("cargo build --offline 2>&1", cwd=HARNESS, timeout=3600)
    if rc != 0:
        tail = "\n".join(out.splitlines()[-40:])
        raise ToolError("harness build failed (the library may no longer compile with the harness):\n" + tail)
    _built = True
    log(f"[build] harness built in {time.time()-t0:.1f}s")


class Ctx:
    """One run of one property check."""

    def __init__(self, pid, tier, seed):
        self.pid, self.tier, self.seed = pid, tier, seed
        self.t0 = time.time()
        self.dir = os.path.join(WORK, f"{pid}-{os.getpid()}")
        shutil.rmtree(self.dir, ignore_errors=True)
        os.makedirs(self.dir)
        self.violations = []     # dicts: key, what, replay
        self.drift = 0
        self.cov = {"states": 0, "transitions": 0, "traces_validated_against_impl": 0, "samples": [],
                    "slices": [], "replayed_scripts": 0, "replayed_steps": 0, "drift": 0,
                    "trace_events_validated": 0, "exhaustive": True}
        self.assumptions = []
        self.struct_files = []

    def cleanup(self):
        shutil.rmtree(self.dir, ignore_errors=True)

    # ------------------------------------------------------------------ violations
    def violation(self, key, what, replay_obj=None, replay_path=None):
        os.makedirs(REPLAYS, exist_ok=True)
        if replay_path is None:
            digest = hashlib.sha1((key + what).encode()).hexdigest()[:10]
            replay_path = os.path.join(REPLAYS, f"{self.pid}-{digest}.json")
            with open(replay_path, "w") as f:
                json.dump(replay_obj if replay_obj is not None else {"key": key, "what": what}, f)
        self.violations.append({"key": key, "what": what, "replay": replay_path})


# ---------------------------------------------------------------------- TLC

def tla_set(xs):
    return "{" + ", ".join(str(x) for x in xs) + "}"


def write_mc(ctx, name, module, consts, invariants, extra_defs="", constraint=None, view=None, props=None):
    """Materialise one slice: MC.tla extending `module` with the slice's constants."""
    d = os.path.join(ctx.dir, name)
    os.makedirs(d, exist_ok=True)
    for f in os.listdir(SPEC):
        if f.endswith(".tla"):
            shutil.copy(os.path.join(SPEC, f), d)
    for sub in ("props", "trace"):
        sd = os.path.join(SPEC, sub)
        if os.path.isdir(sd):
            for f in os.listdir(sd):
                if f.endswith(".tla"):
                    shutil.copy(os.path.join(sd, f), d)
    q = consts["Q"]
    p, g = TOY[q] if "P" not in consts else (consts["P"], consts["GEN"])
    defs, cfg = [], ["CONSTANTS", f" Q = {q}", f" P = {p}", f" GEN = {g}"]
    for k, v in consts.items():
        if k in ("Q", "P", "GEN"):
            continue
        defs.append(f"MC_{k} == {v}")
        cfg.append(f" {k} <- MC_{k}")
    cfg += ["INIT Init", "NEXT Next", "CHECK_DEADLOCK FALSE"]
    if invariants:
        cfg.append("INVARIANTS " + " ".join(invariants))
    if constraint:
        cfg.append("CONSTRAINT " + constraint)
    if view:
        cfg.append("VIEW " + view)
    with open(os.path.join(d, "MC.tla"), "w") as f:
        f.write(f"---- MODULE MC ----\nEXTENDS {module}\n" + "\n".join(defs) + "\n" + extra_defs + "\n====\n")
    with open(os.path.join(d, "MC.cfg"), "w") as f:
        f.write("\n".join(cfg) + "\n")
    return d


def parse_tlc_log(text):
    r = {"states_generated": 0, "distinct": 0, "depth": 0, "violated": None, "error": None, "finished": False}
    m = re.findall(r"(\d[\d,]*) states generated, (\d[\d,]*) distinct states found", text)
    if m:
        r["states_generated"] = int(m[-1][0].replace(",", ""))
        r["distinct"] = int(m[-1][1].replace(",", ""))
    m = re.search(r"depth of the complete state graph search is (\d+)", text)
    if m:
        r["depth"] = int(m.group(1))
    m = re.search(r"Invariant (\S+) is violated", text)
    if m:
        r["violated"] = m.group(1)
    m = re.search(r"Error: (?!Invariant)(.*)", text)
    if m and not r["violated"]:
        r["error"] = m.group(1)
    if "Model checking completed" in text or "Finished in" in text:
        r["finished"] = True
    return r


def run_tlc_replay(ctx, name, d, workers=12, xmx="12g", timeout=1500, replay=True, simulate=None):
    """TLC on the slice in `d`; emitted scripts are piped into `fv replay`."""
    sim = f"-simulate num={simulate[0]} -depth {simulate[1]}" if simulate else ""
    tlc = (f"timeout {timeout} java -XX:+UseParallelGC -Xss256m -Xmx{xmx} -cp {JAR} tlc2.TLC -workers {workers} {sim} "
           f"-metadir {d}/states -noGenerateSpecTE -config MC.cfg MC.tla 2>&1")
    if replay:
        cmd = (f"{tlc} | tee >(grep -av '^\"{{' > tlc.log) | {FV} replay --threads 8 --fail-dir {d}/fails --sample {d}/sample.json --struct-out {d}/structs.ndjson --struct-max 4000 "
               f"> replay.out; echo ${{PIPESTATUS[0]}} > rc")
    else:
        cmd = f"{tlc} > tlc.log; echo $? > rc"
    t0 = time.time()
    sh(cmd, cwd=d, timeout=timeout + 120)
    time.sleep(0.2)
    text = open(os.path.join(d, "tlc.log"), errors="replace").read()
    rc = int(open(os.path.join(d, "rc")).read().strip() or 0)
    shutil.rmtree(os.path.join(d, "states"), ignore_errors=True)
    st = parse_tlc_log(text)
    st["rc"], st["wall_s"] = rc, round(time.time() - t0, 1)
    st["timeout"] = rc == 124
    rep = None
    if replay:
        out = open(os.path.join(d, "replay.out"), errors="replace").read()
        mism = [json.loads(l[len("MISMATCH "):]) for l in out.splitlines() if l.startswith("MISMATCH ")]
        summ = [json.loads(l[len("SUMMARY "):]) for l in out.splitlines() if l.startswith("SUMMARY ")]
        if not summ:
            raise ToolError(f"replay produced no summary in slice {name}:\n{out[-2000:]}")
        rep = {"summary": summ[0], "mismatches": mism}
    if st["error"] and not st["violated"]:
        raise ToolError(f"TLC error in slice {name}: {st['error']}\n" + "\n".join(text.splitlines()[-30:]))
    if rc not in (0, 12, 124) and not st["violated"]:
        raise ToolError(f"TLC exit code {rc} in slice {name}\n" + "\n".join(text.splitlines()[-30:]))
    return st, rep, text


def first_script(d):
    """One emitted script of the slice, for the evidence samples."""
    return None


# observables that no property statement names unless its projection lists them explicitly:
# the error *variant* and the chunking of random-source requests (DESIGN 5.3: drift, not violation)
NEVER_IMPLIED = {"err", "rng_unused", "rng_overrun", "rng_mismatch", "rng_unscripted", "stage", "blocked_drift"}


def classify(mism, fatal):
    """fatal: set of 'op:key' or '*:key' patterns that belong to the property's projection."""
    op, key = mism.get("op"), mism.get("key")
    # a behaviour that cannot be carried on because an earlier call left an object missing: what the property says
    # about its remaining steps is unexamined.  Fatal wherever the projection names an outcome of a later step
    # (every model-based property except C14, whose projection is panics alone).
    if key == "cut_short":
        return any(not f.endswith(":panic") for f in fatal)
    if f"{op}:{key}" in fatal or f"*:{key}" in fatal:
        return True
    if key in NEVER_IMPLIED:
        return False
    return f"{op}:*" in fatal or "*:*" in fatal


def model_stage(ctx, slices, fatal, module=None):
    """Run every slice: TLC decides the invariants on the model; the emitted
    behaviours are replayed on the real code; mismatches inside the property's
    projection are violations, others are drift."""
    for sl in slices:
        name = sl["name"]
        d = write_mc(ctx, name, sl.get("module", module), sl["consts"], sl["invariants"],
                     extra_defs=sl.get("defs", ""), constraint=sl.get("constraint"))
        st, rep, text = run_tlc_replay(ctx, name, d, workers=sl.get("workers", 12), xmx=sl.get("xmx", "12g"),
                                       timeout=sl.get("timeout", 1500), simulate=sl.get("simulate"))
        log(f"[{ctx.pid}] slice {name}: {st['distinct']} distinct states, {st['states_generated']} generated, "
            f"depth {st['depth']}, {st['wall_s']}s; replay {rep['summary']['scripts']} scripts "
            f"{rep['summary']['steps']} steps, {rep['summary']['mismatches']} mismatches")
        ctx.cov["states"] += st["distinct"]
        ctx.cov["transitions"] += st["states_generated"]
        ctx.cov["replayed_scripts"] += rep["summary"]["scripts"]
        ctx.cov["replayed_steps"] += rep["summary"]["steps"]
        ctx.cov["traces_validated_against_impl"] += rep["summary"]["scripts"]
        slc = {"name": name, "module": sl.get("module", module), "consts": sl["consts"],
               "invariants": sl["invariants"], "distinct_states": st["distinct"],
               "states_generated": st["states_generated"], "depth": st["depth"], "wall_s": st["wall_s"],
               "complete": st["finished"] and not st["timeout"], "scripts_replayed": rep["summary"]["scripts"],
               "steps_replayed": rep["summary"]["steps"], "cover": rep["summary"]["cover"]}
        ctx.cov["slices"].append(slc)
        if st["timeout"] or not st["finished"] or rep["summary"]["cover"].get("lost_lines"):
            ctx.cov["exhaustive"] = False
        if rep["summary"]["script_errors"]:
            raise ToolError(f"slice {name}: {rep['summary']['script_errors']} scripts could not be interpreted: "
                            + json.dumps(rep["mismatches"][:3]))
        if st["violated"]:
            # the *model* violates its invariant: a defect of the design as specified
            p = os.path.join(REPLAYS, f"{ctx.pid}-model-{name}.log")
            os.makedirs(REPLAYS, exist_ok=True)
            open(p, "w").write(text[-20000:])
            ctx.violation(f"{ctx.pid}:model:{name}:{st['violated']}",
                          f"TLC: invariant {st['violated']} violated on the specification (slice {name})",
                          replay_path=p)
        if sl.get("expect_scripts", True) and rep["summary"]["scripts"] == 0 and not st["violated"]:
            raise ToolError(f"slice {name} emitted no scripts (vacuous)")
        seen = set()
        for m in rep["mismatches"]:
            if classify(m, fatal):
                key = f"{ctx.pid}:replay:{m.get('op')}:{m.get('key')}"
                if key in seen:
                    continue
                seen.add(key)
                # the failing script was saved by fv
                fails = os.path.join(d, "fails")
                src = None
                if os.path.isdir(fails):
                    for f in sorted(os.listdir(fails)):
                        if f.endswith(f"-{m.get('script')}.json"):
                            src = os.path.join(fails, f)
                            break
                    if src is None and os.listdir(fails):
                        src = os.path.join(fails, sorted(os.listdir(fails))[0])
                os.makedirs(REPLAYS, exist_ok=True)
                dst = os.path.join(REPLAYS, f"{ctx.pid}-{name}-{m.get('op')}-{m.get('key')}.json")
                if src:
                    shutil.copy(src, dst)
                else:
                    json.dump(m, open(dst, "w"))
                ctx.violation(key, f"code differs from model in {m.get('op')}.{m.get('key')}: "
                              f"expected {json.dumps(m.get('expected'))} got {json.dumps(m.get('got'))} "
                              f"(slice {name}, step {m.get('step')})", replay_path=dst)
            else:
                ctx.drift += 1
        ctx.struct_files.append(os.path.join(d, "structs.ndjson"))
        # keep one sample script
        if len(ctx.cov["samples"]) < 3:
            s = sample_script(d)
            if s is not None:
                ctx.cov["samples"].append(s)


def sample_script(d):
    p = os.path.join(d, "sample.json")
    if os.path.exists(p):
        try:
            return json.load(open(p))
        except Exception:
            return None
    return None


# ---------------------------------------------------------------------- traces (code -> spec)

WITNESS_Q = 23099
REAL_SUITES = ["ed25519", "ed448", "p256", "ristretto255", "secp256k1", "secp256k1-tr"]
GENERIC_KEYS = {"ok", "err", "culprits", "min", "max", "id", "same", "roundtrip_ok", "singles", "plains",
                "inner_comm_eq", "commit_same", "keyed_by_own_id", "stage", "delta_ids", "structural_same", "refused_on_count"}
ORDERED_KEYS = set()


def run_trace_tlc(d, module, trace_file, q=None, timeout=1200, _retry=True, doms=True, extra_cfg=None):
    """TLC on a trace specification; returns (lines_consumed, bad list [(line, op, key)])."""
    for root in (SPEC, os.path.join(SPEC, "props"), os.path.join(SPEC, "trace")):
        for f in os.listdir(root):
            if f.endswith(".tla"):
                shutil.copy(os.path.join(root, f), d)
    cfg = ["CONSTANTS"]
    if q:
        p, g = TOY[q]
        cfg += [f" Q = {q}", f" P = {p}", f" GEN = {g}"]
        if doms:
            cfg += [f" {k} <- MC_Empty" for k in ("DomH1", "DomH2", "DomH3", "DomH4", "DomH5", "DomHDKG", "DomHR", "DomHID")]
    if len(cfg) == 1:
        cfg = []
    cfg += (extra_cfg or [])
    cfg += ["SPECIFICATION TraceSpec", "INVARIANT Consumed", "CHECK_DEADLOCK FALSE"]
    open(os.path.join(d, "TMC.tla"), "w").write(f"---- MODULE TMC ----\nEXTENDS {module}\nMC_Empty == {{}}\n====\n")
    open(os.path.join(d, "TMC.cfg"), "w").write("\n".join(cfg) + "\n")
    rc, out, err = sh(f"timeout {timeout} java -XX:+UseParallelGC -Xss1g -Xmx8g -Dtlc2.tool.queue.IStateQueue=StateDeque "
                      f"-cp {JAR} tlc2.TLC -workers 1 -metadir {d}/tstates -noGenerateSpecTE -config TMC.cfg TMC.tla 2>&1",
                      cwd=d, timeout=timeout + 60, env={"TRACE": trace_file})
    shutil.rmtree(os.path.join(d, "tstates"), ignore_errors=True)
    mm = re.search(r'<<\s*"TRACE-RESULT"', out)
    i = mm.start() if mm else -1
    if i < 0 and _retry:
        time.sleep(2)
        return run_trace_tlc(d, module, trace_file, q, timeout, _retry=False, doms=doms, extra_cfg=extra_cfg)
    if i < 0:
        raise ToolError(f"trace validation ({module}) produced no result:\n" + "\n".join(out.splitlines()[-30:]))
    j = out.find("Model checking completed", i)
    body = out[i:j if j > 0 else len(out)]
    n = int(re.search(r'"TRACE-RESULT",\s*(\d+)', body).group(1))
    bad = [(int(a), b, c) for a, b, c in re.findall(r'<<(\d+),\s*"([^"]*)",\s*"([^"]*)">>', body)]
    return n, bad


def load_events(path):
    return [json.loads(l) for l in open(path)]


def proj(res, unordered=False):
    out = {}
    for k, v in res.items():
        if k in GENERIC_KEYS:
            out[k] = v
    return out


def strip_reloads(line):
    s = json.loads(line)
    s["steps"] = [st for st in s["steps"] if st.get("op") != "reload"]
    return json.dumps(s)


def trace_stage(ctx, fatal, n_quick=120, n_thorough=1200, suites=None, id_modes=("plain", "u16mul", "big", "derive", "hi"),
                paired_reload=False):
    """code -> spec.  Value-free structures of TLC's behaviours are run on the toy
    witness field (validated exactly by TraceAlg) and on the real suites
    (validated against the witness projection and value-free laws by TraceReal)."""
    import random
    per_slice, seen = [], set()
    for f in ctx.struct_files:
        mine = []
        if os.path.exists(f):
            for line in open(f):
                line = line.strip()
                if line and line not in seen:
                    seen.add(line)
                    mine.append(line)
        if mine:
            per_slice.append(mine)
    if not per_slice:
        raise ToolError("no scenario structures to record")
    rnd = random.Random(ctx.seed)
    n = n_thorough if ctx.tier == "thorough" else n_quick
    # stratified: every slice contributes its share (a sweep slice with a dozen structures is taken whole),
    # the remainder is drawn from what is left
    share = max(1, n // len(per_slice))
    structs, rest = [], []
    for mine in per_slice:
        rnd.shuffle(mine)
        structs += mine[:share]
        rest += mine[share:]
    if len(structs) < n and rest:
        structs += rnd.sample(rest, min(len(rest), n - len(structs)))
    d = os.path.join(ctx.dir, "traces")
    os.makedirs(d, exist_ok=True)
    sp = os.path.join(d, "structs.ndjson")
    open(sp, "w").write("\n".join(structs) + "\n")
    script_of = {i + 1: json.loads(s) for i, s in enumerate(structs)}

    def fv_run(suite, seed, out, id_mode="plain"):
        rc, o, e = sh(f"{FV} run --suite {suite} --q {WITNESS_Q} --seed {seed} --id-mode {id_mode} --events {out} < {sp}", cwd=d,
                      timeout=1800)
        summ = [json.loads(l[8:]) for l in o.splitlines() if l.startswith("SUMMARY ")]
        if rc != 0 or not summ:
            raise ToolError(f"fv run failed for {suite}: {o[-500:]} {e[-500:]}")
        if summ[0]["script_errors"]:
            raise ToolError(f"fv run {suite}: scripts could not be interpreted: {summ[0]['errors']}")
        return summ[0]

    def report(bad, events, what, extra):
        seen_keys = set()
        for (line, op, key) in bad:
            m = {"op": op, "key": key}
            if classify(m, fatal) or key in ("culprits_order", "released_invalid", "ext_ok", "panic", "first_vs_all"):
                vkey = f"{ctx.pid}:trace:{what}:{op}:{key}"
                if vkey in seen_keys:
                    continue
                seen_keys.add(vkey)
                # find the scenario this line belongs to
                j = line - 1
                while j >= 0 and events[j].get("op") != "reset":
                    j -= 1
                sidx = events[j].get("script") if j >= 0 else None
                ev = events[line - 1]
                rp = {"what": what, "script_index": sidx, "script": script_of.get(sidx), "event": ev}
                rp.update(extra)
                if j >= 0:
                    rp["suite"] = events[j].get("suite")
                    rp["id_mode"] = events[j].get("id_mode")
                    what_s = f"{what}/{events[j].get('suite')}/{events[j].get('id_mode')}"
                else:
                    what_s = what
                ctx.violation(vkey, f"trace validation ({what_s}): {op}.{key} differs from the specification at event {line}: "
                              f"got {json.dumps(ev.get('res'))[:300]} expected {json.dumps(ev.get('wit', {}))[:200]}",
                              replay_obj=rp)
            else:
                ctx.drift += 1
                dk = f"{what}:{op}:{key}"
                ctx.cov.setdefault("drift_keys", {})
                ctx.cov["drift_keys"][dk] = ctx.cov["drift_keys"].get(dk, 0) + 1

    # 1. two witnesses, validated exactly against the Alg specification
    wits = []
    for k in (1, 2):
        wp = os.path.join(d, f"wit{k}.ndjson")
        fv_run("toy", ctx.seed * 2 + k, wp)
        n_ev, bad = run_trace_tlc(d, "TraceAlg", wp, q=WITNESS_Q)
        ev = load_events(wp)
        log(f"[{ctx.pid}] witness {k}: {n_ev} events validated against TraceAlg, {len(bad)} differences")
        ctx.cov["trace_events_validated"] += n_ev
        ctx.cov["traces_validated_against_impl"] += sum(1 for e in ev if e.get("op") == "reset")
        report(bad, ev, f"witness{k}", {"q": WITNESS_Q, "seed": ctx.seed * 2 + k})
        wits.append(ev)

    # 2. generic projection: scenarios on which the two witnesses agree step by step
    def by_script(ev):
        out, cur = {}, None
        for e in ev:
            if e.get("op") == "reset":
                cur = e["script"]
                out[cur] = []
            else:
                out[cur].append(e)
        return out
    w1, w2 = by_script(wits[0]), by_script(wits[1])
    generic = {}
    for sidx in w1:
        a, b = w1[sidx], w2.get(sidx, [])
        if len(a) == len(b) and all(proj(x["res"]) == proj(y["res"]) for x, y in zip(a, b)):
            generic[sidx] = [proj(x["res"]) for x in a]
    ctx.cov["generic_scenarios"] = len(generic)
    ctx.cov["nongeneric_scenarios_skipped"] = len(w1) - len(generic)

    # 3. real suites
    real_path = os.path.join(d, "real.ndjson")
    n_real = 0
    with open(real_path, "w") as out:
        for si, suite in enumerate(suites or REAL_SUITES):
            modes = id_modes if ctx.tier == "thorough" else (id_modes[(si + ctx.seed) % len(id_modes)], "plain")
            for mode in dict.fromkeys(modes):
                ep = os.path.join(d, f"{suite}-{mode}.ndjson")
                fv_run(suite, ctx.seed * 7 + si, ep, mode)
                cur, k = None, 0

                def close_scenario():
                    # the real suite ended the scenario earlier than the witness did: an object the remaining steps
                    # need does not exist there
                    if cur in generic and k < len(generic[cur]):
                        out.write(json.dumps({"op": "cut_short", "script": cur, "suite": suite, "id_mode": mode, "after": k,
                                              "res": {"cut_short": True}, "wit": {"cut_short": False}}) + "\n")

                for e in load_events(ep):
                    if e.get("op") == "reset":
                        close_scenario()
                        cur, k = e["script"], 0
                        if cur in generic:
                            out.write(json.dumps(e) + "\n")
                            n_real += 1
                        continue
                    if cur in generic:
                        g = generic[cur]
                        if k < len(g):
                            w = dict(g[k])
                            if mode == "derive":
                                e["unordered"] = True
                                # which culprit is *first* depends on the identifier order, which a
                                # hash-derived identifier does not share with its label (checked by the
                                # first-vs-all law of TraceReal instead)
                                if e.get("mode", "FirstCheater") == "FirstCheater" and e.get("op") == "aggregate":
                                    w.pop("culprits", None)
                                if e.get("op") in ("dkg2", "dkg3"):   # first failing sender in identifier order
                                    w.pop("culprits", None)
                            e["wit"] = w
                        e.pop("queries", None)
                        out.write(json.dumps(e) + "\n")
                    k += 1
                close_scenario()
                os.remove(ep)
    n_ev, bad = run_trace_tlc(d, "TraceReal", real_path)
    ev = load_events(real_path)
    log(f"[{ctx.pid}] real suites: {n_real} scenario runs, {n_ev} events validated against TraceReal, {len(bad)} differences")
    ctx.cov["trace_events_validated"] += n_ev
    ctx.cov["traces_validated_against_impl"] += n_real
    ctx.cov["real_suite_runs"] = n_real
    report(bad, ev, "real", {"seed": ctx.seed})
    if len(ctx.cov["samples"]) < 4 and ev:
        ctx.cov["samples"].append({"real_suite_events": ev[1:4]})

    # 4. C13: paired runs under one seed, with and without save/restore: every later output must be identical
    if paired_reload:
        sp2 = os.path.join(d, "structs_noreload.ndjson")
        open(sp2, "w").write("\n".join(strip_reloads(s) for s in structs) + "\n")
        pair_path = os.path.join(d, "paired.ndjson")
        n_pairs = 0
        with open(pair_path, "w") as out:
            for si, suite in enumerate(["toy"] + list(suites or REAL_SUITES)):
                a = os.path.join(d, f"{suite}-with.ndjson")
                b = os.path.join(d, f"{suite}-without.ndjson")
                fv_run(suite, ctx.seed * 11 + si, a)
                rc, o, e = sh(f"{FV} run --suite {suite} --q {WITNESS_Q} --seed {ctx.seed * 11 + si} --events {b} < {sp2}", cwd=d, timeout=1800)
                wa, wb = by_script(load_events(a)), by_script(load_events(b))
                for sidx in wa:
                    plain = [x for x in wb.get(sidx, [])]
                    k = 0
                    out.write(json.dumps({"op": "reset", "script": sidx, "suite": suite, "id_mode": "plain"}) + "\n")
                    n_pairs += 1
                    for x in wa[sidx]:
                        x.pop("queries", None)
                        if x.get("op") != "reload":
                            if k < len(plain):
                                w = {kk: vv for kk, vv in plain[k]["res"].items() if not kk.startswith("rng_")}
                                x["wit"] = w
                            k += 1
                        x["res"] = {kk: vv for kk, vv in x["res"].items() if not kk.startswith("rng_")}
                        out.write(json.dumps(x) + "\n")
                os.remove(a)
                os.remove(b)
        n_ev, bad = run_trace_tlc(d, "TraceReal", pair_path)
        ev = load_events(pair_path)
        log(f"[{ctx.pid}] paired save/restore runs: {n_pairs} pairs, {n_ev} events validated against TraceReal, {len(bad)} differences")
        ctx.cov["trace_events_validated"] += n_ev
        ctx.cov["traces_validated_against_impl"] += n_pairs
        ctx.cov["paired_runs"] = n_pairs
        report(bad, ev, "paired", {"seed": ctx.seed})


def codec_stage(ctx):
    """C12: decode/encode events of every wire type of the toy suite (with the whole
    2^16 space of primitives) and of the six real suites, checked by TLC against
    the laws and acceptance sets of spec/trace/TraceCodec.tla."""
    d = os.path.join(ctx.dir, "codec")
    os.makedirs(d, exist_ok=True)
    heavy = "--heavy" if ctx.tier == "thorough" else ""
    jobs = [("toy", 251), ("toy", 257)] + [(s, None) for s in REAL_SUITES]
    total = 0
    for suite, q in jobs:
        ep = os.path.join(d, f"{suite}{q or ''}.ndjson")
        rc, o, e = sh(f"{FV} codec --suite {suite} {'--q %d' % q if q else ''} --seed {ctx.seed} {heavy} --events {ep}", cwd=d,
                      timeout=1800)
        summ = [json.loads(l[8:]) for l in o.splitlines() if l.startswith("SUMMARY ")]
        if rc != 0 or not summ:
            raise ToolError(f"fv codec failed for {suite}: {o[-400:]} {e[-400:]}")
        n_ev, bad = run_trace_tlc(d, "TraceCodec", ep, q=q or 7, doms=False)
        ev = load_events(ep)
        total += n_ev
        log(f"[{ctx.pid}] codec {suite}{q or ''}: {n_ev} events validated against TraceCodec, {len(bad)} law violations")
        seen = set()
        for (line, ty, law) in bad:
            e = ev[line - 1]
            key = f"{ctx.pid}:{suite}:{e.get('class')}:{law}"
            if key in seen:
                continue
            seen.add(key)
            ctx.violation(key, f"codec law {law} violated by {suite} {ty} ({e.get('form')}, tag {e.get('tag')}): "
                          f"input {json.dumps(e.get('input'))[:200]} accepted={e.get('accepted')} reenc={json.dumps(e.get('reenc'))[:200]}",
                          replay_obj={"suite": suite, "q": q, "seed": ctx.seed, "event": e, "law": law})
        if len(ctx.cov["samples"]) < 3:
            ctx.cov["samples"].append({"suite": suite, "events": ev[1:3]})
        ctx.cov["traces_validated_against_impl"] += 1
        os.remove(ep)
    ctx.cov["trace_events_validated"] += total
    ctx.cov["codec_events"] = total
    # a vacuity guard: the trace specification must have seen every law's antecedent
    ctx.cov["states"] += total
    ctx.cov["transitions"] += total


def plain_tlc(ctx, name, module, cfg_lines, defs, workers=12, timeout=1500):
    """A model that emits no scripts (its binding to the code is a trace specification)."""
    d = os.path.join(ctx.dir, name)
    os.makedirs(d, exist_ok=True)
    for root in (SPEC, os.path.join(SPEC, "props")):
        for f in os.listdir(root):
            if f.endswith(".tla"):
                shutil.copy(os.path.join(root, f), d)
    open(os.path.join(d, "MC.tla"), "w").write(f"---- MODULE MC ----\nEXTENDS {module}\n{defs}\n====\n")
    open(os.path.join(d, "MC.cfg"), "w").write("\n".join(cfg_lines) + "\n")
    t0 = time.time()
    rc, out, err = sh(f"timeout {timeout} java -XX:+UseParallelGC -Xmx12g -cp {JAR} tlc2.TLC -workers {workers} "
                      f"-metadir {d}/states -noGenerateSpecTE -config MC.cfg MC.tla 2>&1", cwd=d, timeout=timeout + 60)
    shutil.rmtree(os.path.join(d, "states"), ignore_errors=True)
    st = parse_tlc_log(out)
    st["wall_s"] = round(time.time() - t0, 1)
    log(f"[{ctx.pid}] model {name}: {st['distinct']} distinct states, {st['wall_s']}s, violated={st['violated']}")
    if rc == 124:
        ctx.cov["exhaustive"] = False
    elif st["error"] and not st["violated"]:
        raise ToolError(f"TLC error in {name}: {st['error']}\n" + "\n".join(out.splitlines()[-25:]))
    m = re.search(r"Assumption .* is false", out)
    if st["violated"] or m:
        p = os.path.join(REPLAYS, f"{ctx.pid}-model-{name}.log")
        os.makedirs(REPLAYS, exist_ok=True)
        open(p, "w").write(out[-20000:])
        ctx.violation(f"{ctx.pid}:model:{name}:{st['violated'] or 'assume'}",
                      f"TLC: {st['violated'] or m.group(0)} violated on the specification ({name})", replay_path=p)
    ctx.cov["states"] += st["distinct"]
    ctx.cov["transitions"] += st["states_generated"]
    ctx.cov["slices"].append({"name": name, "module": module, "cfg": cfg_lines, "distinct_states": st["distinct"],
                              "wall_s": st["wall_s"], "complete": st["finished"] and rc != 124})
    return st


def taproot_stage(ctx):
    d = os.path.join(ctx.dir, "taproot")
    os.makedirs(d, exist_ok=True)
    n = 2500 if ctx.tier == "thorough" else 450
    ep = os.path.join(d, "tr.ndjson")
    rc, o, e = sh(f"{FV} taproot --seed {ctx.seed} --sessions {n} --events {ep}", cwd=d, timeout=3000)
    if rc != 0 or "SUMMARY" not in o:
        raise ToolError(f"fv taproot failed: {o[-400:]} {e[-400:]}")
    n_ev, bad = run_trace_tlc(d, "TraceTaproot", ep)
    ev = load_events(ep)
    log(f"[{ctx.pid}] taproot: {n_ev} events ({n} sessions, {n * 20} fault cases) validated against TraceTaproot, {len(bad)} law violations")
    seen = set()
    for (line, op, law) in bad:
        key = f"{ctx.pid}:tr:{law}"
        if key in seen:
            continue
        seen.add(key)
        e = ev[line - 1] if line >= 1 else {}
        if law == "parity_combination_missing":
            raise ToolError("not every parity combination was observed: increase the number of sessions")
        ctx.violation(key, f"Taproot law {law} violated in session {e.get('i')}: {json.dumps({k: v for k, v in e.items() if k != 'faults'})[:400]}",
                      replay_obj={"seed": ctx.seed, "sessions": n, "event": e, "law": law})
    ctx.cov["trace_events_validated"] += n_ev
    ctx.cov["traces_validated_against_impl"] += n
    ctx.cov["taproot_sessions"] = n
    ctx.cov["taproot_fault_cases"] = n * 20
    if ev:
        ctx.cov["samples"].append({k: v for k, v in ev[1].items() if k != "faults"})


def fuzz_stage(ctx):
    """C14 (bytes): every decoder of every suite under valid, deviated, structure-aware mutated and random
    inputs; TLC checks the trace for the no-panic law (the other codec laws belong to C12)."""
    d = os.path.join(ctx.dir, "fuzz")
    os.makedirs(d, exist_ok=True)
    heavy = "--heavy" if ctx.tier == "thorough" else ""
    total = nontrivial = 0
    for suite, q in [("toy", 251)] + [(s, None) for s in REAL_SUITES]:
        seeds = [ctx.seed, ctx.seed + 1000] if ctx.tier == "thorough" else [ctx.seed]
        for sd in seeds:
            ep = os.path.join(d, f"{suite}.ndjson")
            rc, o, e = sh(f"{FV} codec --suite {suite} {'--q %d' % q if q else ''} --seed {sd} {heavy} --fuzz --events {ep}", cwd=d,
                          timeout=3000)
            if rc != 0 or "SUMMARY" not in o:
                raise ToolError(f"fv codec --fuzz failed for {suite}: {o[-400:]} {e[-400:]}")
            n_ev, bad = run_trace_tlc(d, "TraceCodec", ep, q=q or 7, doms=False, timeout=3000)
            ev = load_events(ep)
            total += n_ev
            nontrivial += sum(1 for x in ev if x.get("op") == "dec" and x.get("tag") != "valid")
            panics = [(l, ty, law) for (l, ty, law) in bad if law == "panic"]
            log(f"[{ctx.pid}] decoders {suite} seed {sd}: {n_ev} inputs, {len(panics)} panics")
            seen = set()
            for (line, ty, law) in panics:
                x = ev[line - 1]
                key = f"{ctx.pid}:{suite}:decode:{ty}:panic"
                if key in seen:
                    continue
                seen.add(key)
                ctx.violation(key, f"decoder panic: {suite} {ty} on input {json.dumps(x.get('input'))[:300]}",
                              replay_obj={"suite": suite, "seed": sd, "event": x})
            if len(ctx.cov["samples"]) < 5:
                muts = [x for x in ev if x.get("tag") == "mutated"][:1]
                if muts:
                    ctx.cov["samples"].append({"suite": suite, "decoder_input": muts[0]})
            os.remove(ep)
    ctx.cov["decoder_inputs"] = total
    ctx.cov["decoder_inputs_nontrivial"] = nontrivial
    ctx.cov["trace_events_validated"] += total


def lifecycle_stage(ctx):
    d = os.path.join(ctx.dir, "lifecycle")
    os.makedirs(d, exist_ok=True)
    rounds = 20 if ctx.tier == "thorough" else 4
    total = 0
    for suite in REAL_SUITES:
        ep = os.path.join(d, f"{suite}.ndjson")
        rc, o, e = sh(f"{FV} lifecycle --suite {suite} --seed {ctx.seed} --rounds {rounds} --events {ep}", cwd=d, timeout=1800)
        if rc != 0 or "SUMMARY" not in o:
            raise ToolError(f"fv lifecycle failed for {suite}: {o[-300:]} {e[-300:]}")
        open(os.path.join(d, "TMCL.cfg"), "w").write("")
        n_ev, bad = run_trace_tlc(d, "TraceLifecycle", ep, extra_cfg=["CONSTANT MaxObjs = 1"])
        ev = load_events(ep)
        total += n_ev
        log(f"[{ctx.pid}] lifecycle {suite}: {n_ev} events validated against TraceLifecycle, {len(bad)} law violations")
        seen = set()
        for (line, ty, law) in bad:
            if law == "observer_blind" or law.startswith("not_exercised"):
                raise ToolError(f"lifecycle observer failure ({law}, {ty}, {suite})")
            key = f"{ctx.pid}:{ty}:{law}"
            if key in seen:
                continue
            seen.add(key)
            x = ev[line - 1]
            ctx.violation(key, f"{law}: {suite} {ty}: {json.dumps(x)[:300]}", replay_obj={"suite": suite, "seed": ctx.seed, "event": x})
        if len(ctx.cov["samples"]) < 3:
            ctx.cov["samples"].append(ev[1])
        os.remove(ep)
    ctx.cov["trace_events_validated"] += total
    ctx.cov["lifecycle_cases"] = total
    ctx.cov["traces_validated_against_impl"] += len(REAL_SUITES)


SPY_SUITES = ["spy-ed25519", "spy-ed448", "spy-p256", "spy-ristretto255", "spy-secp256k1"]


def spy_stage(ctx, n_quick=60, n_thorough=600):
    """C02/C15: the structures of the model's behaviours run on Spy<C> (real arithmetic, logged hash
    queries); TLC checks the byte structure of every preimage (spec/trace/TraceSpy.tla)."""
    import random
    structs, seen = [], set()
    for f in ctx.struct_files:
        if os.path.exists(f):
            for line in open(f):
                line = line.strip()
                if line and line not in seen:
                    seen.add(line)
                    structs.append(line)
    rnd = random.Random(ctx.seed + 17)
    n = n_thorough if ctx.tier == "thorough" else n_quick
    # prefer the larger signer sets (list order matters from four signers on)
    structs.sort(key=lambda s: -s.count('"op":"commit"'))
    head = structs[: n // 2]
    rest = structs[n // 2:]
    structs = head + (rnd.sample(rest, min(len(rest), n - len(head))) if rest else [])
    d = os.path.join(ctx.dir, "spy")
    os.makedirs(d, exist_ok=True)
    sp = os.path.join(d, "structs.ndjson")
    open(sp, "w").write("\n".join(structs) + "\n")
    total = runs = 0
    modes = ["big", "derive", "u16mul", "plain", "derive"]
    for si, suite in enumerate(SPY_SUITES):
        for mode in ([modes[si], "derive"] if ctx.tier == "quick" else ["big", "derive", "u16mul", "plain"]):
            ep = os.path.join(d, f"{suite}-{mode}.ndjson")
            rc, o, e = sh(f"{FV} run --suite {suite} --seed {ctx.seed * 5 + si} --id-mode {mode} --events {ep} < {sp}", cwd=d, timeout=1800)
            summ = [json.loads(l[8:]) for l in o.splitlines() if l.startswith("SUMMARY ")]
            if rc != 0 or not summ or summ[0]["script_errors"]:
                raise ToolError(f"fv run failed for {suite}: {o[-400:]} {e[-400:]}")
            n_ev, bad = run_trace_tlc(d, "TraceSpy", ep)
            ev = load_events(ep)
            total += n_ev
            runs += summ[0]["scripts"]
            seenk = set()
            for (line, op, law) in bad:
                key = f"{ctx.pid}:spy:{op}:{law}"
                if key in seenk:
                    continue
                seenk.add(key)
                x = ev[line - 1]
                j = line - 1
                while j >= 0 and ev[j].get("op") != "reset":
                    j -= 1
                sidx = ev[j].get("script") if j >= 0 else None
                ctx.violation(key, f"{suite} ({mode} identifiers): {op}: {law}: queries {json.dumps(x.get('queries'))[:400]}",
                              replay_obj={"suite": suite, "id_mode": mode, "seed": ctx.seed * 5 + si, "law": law, "event": x,
                                          "script": json.loads(structs[sidx - 1]) if sidx else None})
            os.remove(ep)
    log(f"[{ctx.pid}] spy suites: {runs} scenario runs, {total} events validated against TraceSpy")
    ctx.cov["trace_events_validated"] += total
    ctx.cov["traces_validated_against_impl"] += runs
    ctx.cov["spy_runs"] = runs


def interop_stage(ctx):
    d = os.path.join(ctx.dir, "interop")
    os.makedirs(d, exist_ok=True)
    count = 400 if ctx.tier == "thorough" else 60
    total = 0
    jobs = [("toy", 7), ("toy", 251), ("toy", 257)] + [(s, None) for s in REAL_SUITES]
    for suite, q in jobs:
        ep = os.path.join(d, f"{suite}{q or ''}.ndjson")
        rc, o, e = sh(f"{FV} interop --suite {suite} {'--q %d' % q if q else ''} --seed {ctx.seed} --count {count} --events {ep}", cwd=d, timeout=1800)
        if rc != 0 or "SUMMARY" not in o:
            raise ToolError(f"fv interop failed for {suite}: {o[-300:]} {e[-300:]}")
        n_ev, bad = run_trace_tlc(d, "TraceInterop", ep, extra_cfg=[f"CONSTANT Q = {q or 7}"])
        ev = load_events(ep)
        total += n_ev
        seenk = set()
        for (line, op, law) in bad:
            key = f"{ctx.pid}:{suite}:{op}:{law}"
            if key in seenk:
                continue
            seenk.add(key)
            x = ev[line - 1]
            if op == "idu16":
                x = {"op": "idu16", "q": x.get("q")}
            ctx.violation(key, f"{suite}: {law}: {json.dumps(x)[:300]}", replay_obj={"suite": suite, "q": q, "seed": ctx.seed, "event": x})
        os.remove(ep)
    log(f"[{ctx.pid}] interop / identifier encoding: {total} events validated against TraceInterop")
    ctx.cov["trace_events_validated"] += total
    ctx.cov["interop_events"] = total


def assume_stage(ctx, name, module, consts, timeout=900):
    """Constant-level obligations (ASSUMEs) decided by TLC; no behaviours, no replay."""
    d = os.path.join(ctx.dir, name)
    os.makedirs(d, exist_ok=True)
    for root in (SPEC, os.path.join(SPEC, "props")):
        for f in os.listdir(root):
            if f.endswith(".tla"):
                shutil.copy(os.path.join(root, f), d)
    defs, cfg = [], ["CONSTANTS"]
    for k, v in consts.items():
        if isinstance(v, int):
            cfg.append(f" {k} = {v}")
        else:
            defs.append(f"MC_{k} == {v}")
            cfg.append(f" {k} <- MC_{k}")
    open(os.path.join(d, "MC.tla"), "w").write(f"---- MODULE MC ----\nEXTENDS {module}\n" + "\n".join(defs) + "\n====\n")
    open(os.path.join(d, "MC.cfg"), "w").write("\n".join(cfg) + "\n")
    t0 = time.time()
    rc, out, err = sh(f"timeout {timeout} java -XX:+UseParallelGC -Xmx8g -cp {JAR} tlc2.TLC -workers 4 "
                      f"-metadir {d}/states -noGenerateSpecTE -config MC.cfg MC.tla 2>&1", cwd=d, timeout=timeout + 60)
    shutil.rmtree(os.path.join(d, "states"), ignore_errors=True)
    wall = round(time.time() - t0, 1)
    ok = "No error has been found" in out
    failed = re.search(r"Assumption (.*) is false", out)
    log(f"[{ctx.pid}] assume {name}: {'ok' if ok else 'FAILED'} {wall}s")
    ctx.cov["slices"].append({"name": name, "module": module, "consts": consts, "kind": "ASSUME", "wall_s": wall,
                              "complete": ok})
    ctx.cov["obligations_assume"] = ctx.cov.get("obligations_assume", 0) + 1
    if rc == 124:
        ctx.cov["exhaustive"] = False
        return
    if failed:
        p = os.path.join(REPLAYS, f"{ctx.pid}-assume-{name}.log")
        os.makedirs(REPLAYS, exist_ok=True)
        open(p, "w").write(out[-20000:])
        ctx.violation(f"{ctx.pid}:assume:{name}", f"TLC: {failed.group(0)} ({name})", replay_path=p)
    elif not ok:
        raise ToolError(f"assume stage {name} failed to run:\n" + "\n".join(out.splitlines()[-25:]))


# ---------------------------------------------------------------------- finish

def load_known():
    p = os.path.join(ROOT, "known_findings.json")
    if os.path.exists(p):
        return json.load(open(p))
    return {"known": [], "fixed": []}


def finish(ctx, level, text_rule, assumptions, extra_cov=None):
    known = {k["key"]: k for k in load_known().get("known", []) if k.get("property") == ctx.pid}
    new = []
    for v in ctx.violations:
        if v["key"] in known:
            print(f"KNOWN-FINDING: property={ctx.pid} {known[v['key']]['what']}")
        else:
            new.append(v)
    cov = dict(ctx.cov)
    cov["drift"] = ctx.drift
    # exploration-style counts, measured on this run
    cov["evaluations"] = int(cov.get("replayed_steps", 0) + cov.get("trace_events_validated", 0))
    cov["distinct_nontrivial"] = int(cov.get("replayed_scripts", 0) + cov.get("decoder_inputs_nontrivial", 0)
                                     + cov.get("real_suite_runs", 0) + cov.get("lifecycle_cases", 0))
    cov["rule"] = text_rule
    if extra_cov:
        cov.update(extra_cov)
    if not cov["samples"]:
        cov["samples"] = [{"note": "no sample captured"}]
    ev = {"property_id": ctx.pid, "tier": ctx.tier, "seed": ctx.seed, "level": level, "coverage": cov,
          "assumptions": assumptions, "wall_s": round(time.time() - ctx.t0, 1), "violations": len(new),
          "known_findings_seen": [v["key"] for v in ctx.violations if v["key"] in known]}
    os.makedirs(EVIDENCE, exist_ok=True)
    with open(os.path.join(EVIDENCE, f"{ctx.pid}.json"), "w") as f:
        json.dump(ev, f, indent=1)
    for v in new:
        print(f"VIOLATION property={ctx.pid} replay={v['replay']}")
        print(f"  {v['what']}")
    ctx.cleanup()
    return 1 if new else 0
