"""Driver library for the FROST verification checks (python3, stdlib only)."""
import json, os, re, shutil, subprocess, sys, time, hashlib

ROOT = os.path.dirname(os.path.dirname(os.path.abspath(__file__)))
SPEC = os.path.join(ROOT, "spec")
HARNESS = os.path.join(ROOT, "harness")
FV = os.path.join(HARNESS, "target", "debug", "fv")
JAR = "/opt/veriftools/tla/tla2tools.jar:/opt/veriftools/tla/CommunityModules-deps.jar"
WORK = os.path.join(ROOT, ".work")
REPLAYS = os.path.join(ROOT, "replays")
EVIDENCE = os.path.join(ROOT, "evidence")

TOY = {5: (11, 4), 7: (29, 16), 11: (23, 4), 13: (53, 16), 251: (503, 4), 257: (1543, 64)}


class ToolError(Exception):
    """The machinery failed (build error, TLC crash, ...): exit 2, never a verdict."""


def log(*a):
    print(*a, file=sys.stderr, flush=True)


def sh(cmd, cwd=None, timeout=None, env=None):
    e = dict(os.environ)
    e.update({"CARGO_NET_OFFLINE": "true"})
    if env:
        e.update(env)
    p = subprocess.run(cmd, shell=True, cwd=cwd, capture_output=True, text=True, timeout=timeout,
                       executable="/bin/bash", env=e)
    return p.returncode, p.stdout, p.stderr


_built = False


def build_harness():
    """Rebuild the harness against /repo's current working tree."""
    global _built
    if _built:
        return
    t0 = time.time()
    rc, out, err = sh("cargo build --offline 2>&1", cwd=HARNESS, timeout=3600)
    if rc != 0:
        tail = "\n".join(out.splitlines()[-40:])
        raise ToolError("harness build failed (the library may no longer compile with the harness):\n" + tail)
    _built = True
    log(f"[build] harness built in {time.time()-t0:.1f}s")


class Ctx:
    """One run of one property check."""

    def __init__(self, pid, tier, seed):
        self.pid, self.tier, self.seed = pid, tier, seed
        self.t0 = time.time()
        self.dir = os.path.join(WORK, f"{pid}-{os.getpid()}")
        shutil.rmtree(self.dir, ignore_errors=True)
        os.makedirs(self.dir)
        self.violations = []     # dicts: key, what, replay
        self.drift = 0
        self.cov = {"states": 0, "transitions": 0, "traces_validated_against_impl": 0, "samples": [],
                    "slices": [], "replayed_scripts": 0, "replayed_steps": 0, "drift": 0,
                    "trace_events_validated": 0, "exhaustive": True}
        self.assumptions = []

    def cleanup(self):
        shutil.rmtree(self.dir, ignore_errors=True)

    # ------------------------------------------------------------------ violations
    def violation(self, key, what, replay_obj=None, replay_path=None):
        os.makedirs(REPLAYS, exist_ok=True)
        if replay_path is None:
            digest = hashlib.sha1((key + what).encode()).hexdigest()[:10]
            replay_path = os.path.join(REPLAYS, f"{self.pid}-{digest}.json")
            with open(replay_path, "w") as f:
                json.dump(replay_obj if replay_obj is not None else {"key": key, "what": what}, f)
        self.violations.append({"key": key, "what": what, "replay": replay_path})


# ---------------------------------------------------------------------- TLC

def tla_set(xs):
    return "{" + ", ".join(str(x) for x in xs) + "}"


def write_mc(ctx, name, module, consts, invariants, extra_defs="", constraint=None, view=None, props=None):
    """Materialise one slice: MC.tla extending `module` with the slice's constants."""
    d = os.path.join(ctx.dir, name)
    os.makedirs(d, exist_ok=True)
    for f in os.listdir(SPEC):
        if f.endswith(".tla"):
            shutil.copy(os.path.join(SPEC, f), d)
    for sub in ("props", "trace"):
        sd = os.path.join(SPEC, sub)
        if os.path.isdir(sd):
            for f in os.listdir(sd):
                if f.endswith(".tla"):
                    shutil.copy(os.path.join(sd, f), d)
    q = consts["Q"]
    p, g = TOY[q] if "P" not in consts else (consts["P"], consts["GEN"])
    defs, cfg = [], ["CONSTANTS", f" Q = {q}", f" P = {p}", f" GEN = {g}"]
    for k, v in consts.items():
        if k in ("Q", "P", "GEN"):
            continue
        defs.append(f"MC_{k} == {v}")
        cfg.append(f" {k} <- MC_{k}")
    cfg += ["INIT Init", "NEXT Next", "CHECK_DEADLOCK FALSE"]
    if invariants:
        cfg.append("INVARIANTS " + " ".join(invariants))
    if constraint:
        cfg.append("CONSTRAINT " + constraint)
    if view:
        cfg.append("VIEW " + view)
    with open(os.path.join(d, "MC.tla"), "w") as f:
        f.write(f"---- MODULE MC ----\nEXTENDS {module}\n" + "\n".join(defs) + "\n" + extra_defs + "\n====\n")
    with open(os.path.join(d, "MC.cfg"), "w") as f:
        f.write("\n".join(cfg) + "\n")
    return d


def parse_tlc_log(text):
    r = {"states_generated": 0, "distinct": 0, "depth": 0, "violated": None, "error": None, "finished": False}
    m = re.findall(r"(\d[\d,]*) states generated, (\d[\d,]*) distinct states found", text)
    if m:
        r["states_generated"] = int(m[-1][0].replace(",", ""))
        r["distinct"] = int(m[-1][1].replace(",", ""))
    m = re.search(r"depth of the complete state graph search is (\d+)", text)
    if m:
        r["depth"] = int(m.group(1))
    m = re.search(r"Invariant (\S+) is violated", text)
    if m:
        r["violated"] = m.group(1)
    m = re.search(r"Error: (?!Invariant)(.*)", text)
    if m and not r["violated"]:
        r["error"] = m.group(1)
    if "Model checking completed" in text or "Finished in" in text:
        r["finished"] = True
    return r


def run_tlc_replay(ctx, name, d, workers=12, xmx="12g", timeout=1500, replay=True, simulate=None):
    """TLC on the slice in `d`; emitted scripts are piped into `fv replay`."""
    sim = f"-simulate num={simulate[0]} -depth {simulate[1]}" if simulate else ""
    tlc = (f"timeout {timeout} java -XX:+UseParallelGC -Xmx{xmx} -cp {JAR} tlc2.TLC -workers {workers} {sim} "
           f"-metadir {d}/states -noGenerateSpecTE -config MC.cfg MC.tla 2>&1")
    if replay:
        cmd = (f"{tlc} | tee >(grep -av '^\"{{' > tlc.log) | {FV} replay --threads 8 --fail-dir {d}/fails --sample {d}/sample.json "
               f"> replay.out; echo ${{PIPESTATUS[0]}} > rc")
    else:
        cmd = f"{tlc} > tlc.log; echo $? > rc"
    t0 = time.time()
    sh(cmd, cwd=d, timeout=timeout + 120)
    time.sleep(0.2)
    text = open(os.path.join(d, "tlc.log"), errors="replace").read()
    rc = int(open(os.path.join(d, "rc")).read().strip() or 0)
    shutil.rmtree(os.path.join(d, "states"), ignore_errors=True)
    st = parse_tlc_log(text)
    st["rc"], st["wall_s"] = rc, round(time.time() - t0, 1)
    st["timeout"] = rc == 124
    rep = None
    if replay:
        out = open(os.path.join(d, "replay.out"), errors="replace").read()
        mism = [json.loads(l[len("MISMATCH "):]) for l in out.splitlines() if l.startswith("MISMATCH ")]
        summ = [json.loads(l[len("SUMMARY "):]) for l in out.splitlines() if l.startswith("SUMMARY ")]
        if not summ:
            raise ToolError(f"replay produced no summary in slice {name}:\n{out[-2000:]}")
        rep = {"summary": summ[0], "mismatches": mism}
    if st["error"] and not st["violated"]:
        raise ToolError(f"TLC error in slice {name}: {st['error']}\n" + "\n".join(text.splitlines()[-30:]))
    if rc not in (0, 12, 124) and not st["violated"]:
        raise ToolError(f"TLC exit code {rc} in slice {name}\n" + "\n".join(text.splitlines()[-30:]))
    return st, rep, text


def first_script(d):
    """One emitted script of the slice, for the evidence samples."""
    return None


def classify(mism, fatal):
    """fatal: set of 'op:key' or '*:key' patterns that belong to the property's projection."""
    k = f"{mism.get('op')}:{mism.get('key')}"
    return k in fatal or f"*:{mism.get('key')}" in fatal or f"{mism.get('op')}:*" in fatal or "*:*" in fatal


def model_stage(ctx, slices, fatal, module=None):
    """Run every slice: TLC decides the invariants on the model; the emitted
    behaviours are replayed on the real code; mismatches inside the property's
    projection are violations, others are drift."""
    for sl in slices:
        name = sl["name"]
        d = write_mc(ctx, name, sl.get("module", module), sl["consts"], sl["invariants"],
                     extra_defs=sl.get("defs", ""), constraint=sl.get("constraint"))
        st, rep, text = run_tlc_replay(ctx, name, d, workers=sl.get("workers", 12), xmx=sl.get("xmx", "12g"),
                                       timeout=sl.get("timeout", 1500), simulate=sl.get("simulate"))
        log(f"[{ctx.pid}] slice {name}: {st['distinct']} distinct states, {st['states_generated']} generated, "
            f"depth {st['depth']}, {st['wall_s']}s; replay {rep['summary']['scripts']} scripts "
            f"{rep['summary']['steps']} steps, {rep['summary']['mismatches']} mismatches")
        ctx.cov["states"] += st["distinct"]
        ctx.cov["transitions"] += st["states_generated"]
        ctx.cov["replayed_scripts"] += rep["summary"]["scripts"]
        ctx.cov["replayed_steps"] += rep["summary"]["steps"]
        ctx.cov["traces_validated_against_impl"] += rep["summary"]["scripts"]
        slc = {"name": name, "module": sl.get("module", module), "consts": sl["consts"],
               "invariants": sl["invariants"], "distinct_states": st["distinct"],
               "states_generated": st["states_generated"], "depth": st["depth"], "wall_s": st["wall_s"],
               "complete": st["finished"] and not st["timeout"], "scripts_replayed": rep["summary"]["scripts"],
               "steps_replayed": rep["summary"]["steps"], "cover": rep["summary"]["cover"]}
        ctx.cov["slices"].append(slc)
        if st["timeout"] or not st["finished"]:
            ctx.cov["exhaustive"] = False
        if rep["summary"]["script_errors"]:
            raise ToolError(f"slice {name}: {rep['summary']['script_errors']} scripts could not be interpreted: "
                            + json.dumps(rep["mismatches"][:3]))
        if st["violated"]:
            # the *model* violates its invariant: a defect of the design as specified
            p = os.path.join(REPLAYS, f"{ctx.pid}-model-{name}.log")
            os.makedirs(REPLAYS, exist_ok=True)
            open(p, "w").write(text[-20000:])
            ctx.violation(f"{ctx.pid}:model:{name}:{st['violated']}",
                          f"TLC: invariant {st['violated']} violated on the specification (slice {name})",
                          replay_path=p)
        if sl.get("expect_scripts", True) and rep["summary"]["scripts"] == 0 and not st["violated"]:
            raise ToolError(f"slice {name} emitted no scripts (vacuous)")
        seen = set()
        for m in rep["mismatches"]:
            if classify(m, fatal):
                key = f"{ctx.pid}:replay:{m.get('op')}:{m.get('key')}"
                if key in seen:
                    continue
                seen.add(key)
                # the failing script was saved by fv
                fails = os.path.join(d, "fails")
                src = None
                if os.path.isdir(fails):
                    for f in sorted(os.listdir(fails)):
                        if f.endswith(f"-{m.get('script')}.json"):
                            src = os.path.join(fails, f)
                            break
                    if src is None and os.listdir(fails):
                        src = os.path.join(fails, sorted(os.listdir(fails))[0])
                os.makedirs(REPLAYS, exist_ok=True)
                dst = os.path.join(REPLAYS, f"{ctx.pid}-{name}-{m.get('op')}-{m.get('key')}.json")
                if src:
                    shutil.copy(src, dst)
                else:
                    json.dump(m, open(dst, "w"))
                ctx.violation(key, f"code differs from model in {m.get('op')}.{m.get('key')}: "
                              f"expected {json.dumps(m.get('expected'))} got {json.dumps(m.get('got'))} "
                              f"(slice {name}, step {m.get('step')})", replay_path=dst)
            else:
                ctx.drift += 1
        # keep one sample script
        if len(ctx.cov["samples"]) < 3:
            s = sample_script(d)
            if s is not None:
                ctx.cov["samples"].append(s)


def sample_script(d):
    p = os.path.join(d, "sample.json")
    if os.path.exists(p):
        try:
            return json.load(open(p))
        except Exception:
            return None
    return None


def assume_stage(ctx, name, module, consts, timeout=900):
    """Constant-level obligations (ASSUMEs) decided by TLC; no behaviours, no replay."""
    d = os.path.join(ctx.dir, name)
    os.makedirs(d, exist_ok=True)
    for root in (SPEC, os.path.join(SPEC, "props")):
        for f in os.listdir(root):
            if f.endswith(".tla"):
                shutil.copy(os.path.join(root, f), d)
    defs, cfg = [], ["CONSTANTS"]
    for k, v in consts.items():
        if isinstance(v, int):
            cfg.append(f" {k} = {v}")
        else:
            defs.append(f"MC_{k} == {v}")
            cfg.append(f" {k} <- MC_{k}")
    open(os.path.join(d, "MC.tla"), "w").write(f"---- MODULE MC ----\nEXTENDS {module}\n" + "\n".join(defs) + "\n====\n")
    open(os.path.join(d, "MC.cfg"), "w").write("\n".join(cfg) + "\n")
    t0 = time.time()
    rc, out, err = sh(f"timeout {timeout} java -XX:+UseParallelGC -Xmx8g -cp {JAR} tlc2.TLC -workers 4 "
                      f"-metadir {d}/states -noGenerateSpecTE -config MC.cfg MC.tla 2>&1", cwd=d, timeout=timeout + 60)
    shutil.rmtree(os.path.join(d, "states"), ignore_errors=True)
    wall = round(time.time() - t0, 1)
    ok = "No error has been found" in out
    failed = re.search(r"Assumption (.*) is false", out)
    log(f"[{ctx.pid}] assume {name}: {'ok' if ok else 'FAILED'} {wall}s")
    ctx.cov["slices"].append({"name": name, "module": module, "consts": consts, "kind": "ASSUME", "wall_s": wall,
                              "complete": ok})
    ctx.cov["obligations_assume"] = ctx.cov.get("obligations_assume", 0) + 1
    if rc == 124:
        ctx.cov["exhaustive"] = False
        return
    if failed:
        p = os.path.join(REPLAYS, f"{ctx.pid}-assume-{name}.log")
        os.makedirs(REPLAYS, exist_ok=True)
        open(p, "w").write(out[-20000:])
        ctx.violation(f"{ctx.pid}:assume:{name}", f"TLC: {failed.group(0)} ({name})", replay_path=p)
    elif not ok:
        raise ToolError(f"assume stage {name} failed to run:\n" + "\n".join(out.splitlines()[-25:]))


# ---------------------------------------------------------------------- finish

def load_known():
    p = os.path.join(ROOT, "known_findings.json")
    if os.path.exists(p):
        return json.load(open(p))
    return {"known": [], "fixed": []}


def finish(ctx, level, text_rule, assumptions, extra_cov=None):
    known = {k["key"]: k for k in load_known().get("known", []) if k.get("property") == ctx.pid}
    new = []
    for v in ctx.violations:
        if v["key"] in known:
            print(f"KNOWN-FINDING: property={ctx.pid} {known[v['key']]['what']}")
        else:
            new.append(v)
    cov = dict(ctx.cov)
    cov["drift"] = ctx.drift
    cov["rule"] = text_rule
    if extra_cov:
        cov.update(extra_cov)
    if not cov["samples"]:
        cov["samples"] = [{"note": "no sample captured"}]
    ev = {"property_id": ctx.pid, "tier": ctx.tier, "seed": ctx.seed, "level": level, "coverage": cov,
          "assumptions": assumptions, "wall_s": round(time.time() - ctx.t0, 1), "violations": len(new),
          "known_findings_seen": [v["key"] for v in ctx.violations if v["key"] in known]}
    os.makedirs(EVIDENCE, exist_ok=True)
    with open(os.path.join(EVIDENCE, f"{ctx.pid}.json"), "w") as f:
        json.dump(ev, f, indent=1)
    for v in new:
        print(f"VIOLATION property={ctx.pid} replay={v['replay']}")
        print(f"  {v['what']}")
    ctx.cleanup()
    return 1 if new else 0
