"""./check --selftest : demonstrates that the bindings bind (DESIGN 5.4).
 1. spec -> code: one expectation of a TLC-emitted script is altered  -> fv replay must report exactly that step
 2. code -> spec: one recorded result field of an accepted witness trace is altered -> TraceAlg must report that line
 3. code -> spec: one event (a commit) is removed                      -> the sign that needs its nonces is 'blocked'
 4. code -> spec: one logged oracle answer is altered                  -> the affected call differs
 5. real suites:  one culprit of a real-suite event is altered          -> TraceReal must report that line
Exit 0 iff every sabotage is detected and the unsabotaged artefacts are accepted."""
import json, os, random, sys
import lib, props


def main():
    lib.build_harness()
    ctx = lib.Ctx("SELFTEST", "quick", 1)
    ok = True
    sl = props.c04_slices("quick")[2]          # small shape slice
    d = lib.write_mc(ctx, sl["name"], sl["module"], sl["consts"], sl["invariants"])
    # keep the raw scripts: run TLC without replay, then replay ourselves
    st, rep, text = lib.run_tlc_replay(ctx, sl["name"], d)
    assert rep["summary"]["mismatches"] == 0, "baseline replay must be clean"
    # --- 1. alter one expectation of an emitted script
    sample = json.load(open(os.path.join(d, "sample.json")))
    k = max(i for i, s in enumerate(sample["steps"]) if s["op"] == "sign")
    sample["steps"][k]["expect"]["z"] = (sample["steps"][k]["expect"].get("z", 0) + 1) % sample["q"]
    p = os.path.join(d, "sab1.json")
    json.dump(sample, open(p, "w"))
    rc, o, e = lib.sh(f"{lib.FV} replay --threads 1 < {p}")
    hit = [json.loads(l[9:]) for l in o.splitlines() if l.startswith("MISMATCH ")]
    t1 = any(m["step"] == k and m["key"] == "z" for m in hit)
    print(f"1 spec->code, altered expectation at step {k}: {'detected' if t1 else 'MISSED'}")
    ok &= t1
    # --- witness trace
    structs = [l for l in open(os.path.join(d, "structs.ndjson")) if l.strip()][:40]
    sp = os.path.join(d, "st.ndjson")
    open(sp, "w").write("".join(structs))
    wp = os.path.join(d, "wit.ndjson")
    lib.sh(f"{lib.FV} run --suite toy --q {lib.WITNESS_Q} --seed 5 --events {wp} < {sp}", cwd=d)
    n, bad = lib.run_trace_tlc(d, "TraceAlg", wp, q=lib.WITNESS_Q)
    print(f"  baseline witness trace: {n} events, {len(bad)} differences")
    ok &= len(bad) == 0
    ev = [json.loads(l) for l in open(wp)]

    def write(evs, name):
        q = os.path.join(d, name)
        open(q, "w").write("\n".join(json.dumps(x) for x in evs) + "\n")
        return q
    # --- 2. alter one result field
    i2 = next(i for i, x in enumerate(ev) if x.get("op") == "aggregate" and not x["res"]["ok"] and x["res"].get("culprits"))
    e2 = json.loads(json.dumps(ev))
    e2[i2]["res"]["culprits"] = []
    n, bad = lib.run_trace_tlc(d, "TraceAlg", write(e2, "sab2.ndjson"), q=lib.WITNESS_Q)
    t2 = any(l == i2 + 1 and key == "culprits" for (l, op, key) in bad)
    print(f"2 code->spec, culprits of event {i2 + 1} emptied: {'detected' if t2 else 'MISSED'} ({bad[:2]})")
    ok &= t2
    # --- 3. remove one commit event
    i3 = next(i for i, x in enumerate(ev) if x.get("op") == "commit")
    e3 = ev[:i3] + ev[i3 + 1:]
    n, bad = lib.run_trace_tlc(d, "TraceAlg", write(e3, "sab3.ndjson"), q=lib.WITNESS_Q)
    t3 = any(key == "blocked" for (l, op, key) in bad)
    print(f"3 code->spec, commit event {i3 + 1} removed: {'detected' if t3 else 'MISSED'} ({bad[:2]})")
    ok &= t3
    # --- 4. alter one oracle answer
    i4 = next(i for i, x in enumerate(ev) if x.get("op") == "sign" and x["res"]["ok"] and x.get("queries"))
    e4 = json.loads(json.dumps(ev))
    qi = next(j for j, q in enumerate(e4[i4]["queries"]) if q[0] == "H1")
    e4[i4]["queries"][qi][2] = (e4[i4]["queries"][qi][2] + 1) % lib.WITNESS_Q
    n, bad = lib.run_trace_tlc(d, "TraceAlg", write(e4, "sab4.ndjson"), q=lib.WITNESS_Q)
    t4 = any(l == i4 + 1 for (l, op, key) in bad)
    print(f"4 code->spec, one H1 answer of event {i4 + 1} altered: {'detected' if t4 else 'MISSED'} ({bad[:2]})")
    ok &= t4
    # --- 5. real suite vs witness projection
    rp = os.path.join(d, "real.ndjson")
    lib.sh(f"{lib.FV} run --suite ed25519 --seed 9 --events {rp} < {sp}", cwd=d)
    wit2 = os.path.join(d, "wit2.ndjson")
    lib.sh(f"{lib.FV} run --suite toy --q {lib.WITNESS_Q} --seed 6 --events {wit2} < {sp}", cwd=d)
    w = [json.loads(l) for l in open(wit2)]
    r = [json.loads(l) for l in open(rp)]
    out = []
    for a, b in zip(r, w):
        if a.get("op") != "reset" and a.get("op") == b.get("op"):
            a["wit"] = lib.proj(b["res"])
        a.pop("queries", None)
        out.append(a)
    n, bad = lib.run_trace_tlc(d, "TraceReal", write(out, "real0.ndjson"))
    base_bad = len([b for b in bad if b[2] in ("ok", "culprits")])
    i5 = next(i for i, x in enumerate(out) if x.get("op") == "aggregate" and x["res"].get("culprits"))
    out[i5]["res"]["culprits"] = out[i5]["res"]["culprits"][:-1] + [99]
    n, bad = lib.run_trace_tlc(d, "TraceReal", write(out, "sab5.ndjson"))
    t5 = any(l == i5 + 1 and key == "culprits" for (l, op, key) in bad)
    print(f"5 real suite, one culprit of event {i5 + 1} altered: {'detected' if t5 else 'MISSED'} (baseline differences {base_bad})")
    ok &= t5 and base_bad == 0
    ctx.cleanup()
    print("selftest", "ok" if ok else "FAILED")
    return 0 if ok else 2
