#!/usr/bin/env python3
"""tlconly.py <PID> <tier> <slice-name> [timeout] : run TLC on one slice without replaying (sizing / debugging)."""
import sys, time
sys.path.insert(0, "/verif/checks")
import props, lib

pid, tier, name = sys.argv[1:4]
to = int(sys.argv[4]) if len(sys.argv) > 4 else 600
ctx = lib.Ctx(pid, tier, 1)
sl = [s for s in props.PROPS[pid]["slices"](tier) if s["name"] == name][0]
d = lib.write_mc(ctx, name, sl.get("module"), dict(sl["consts"], EMIT="FALSE"), sl["invariants"],
                 extra_defs=sl.get("defs", ""), constraint=sl.get("constraint"))
t = time.time()
try:
    st, rep, text = lib.run_tlc_replay(ctx, name, d, workers=sl.get("workers", 12), xmx=sl.get("xmx", "12g"), timeout=to, replay=False)
    print({k: st[k] for k in ("distinct", "states_generated", "depth", "wall_s", "timeout", "finished", "violated")})
except lib.ToolError as e:
    print("TOOLERROR", str(e)[:3000])
print("dir", d)
