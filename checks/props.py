"""Per-property configuration: model slices, projections (which observables are
compared fatally), record jobs.  Everything else the model predicts is drift."""
from lib import tla_set

ZQ = lambda q: "0..%d" % (q - 1)
H_DEFAULT = {"DomH1": "{1}", "DomH2": "{1}", "DomH3": "{1}", "DomH4": "{7}", "DomH5": "{9}",
             "DomHDKG": "{1}", "DomHR": "{1}", "DomHID": "{1}"}


def consts(q, **kw):
    c = {"Q": q}
    c.update(H_DEFAULT)
    c.update(kw)
    return c


def subsets_of_size(lo, hi, sizes):
    return "{S \\in SUBSET (%d..%d) : Cardinality(S) \\in %s}" % (lo, hi, tla_set(sizes))


MSG2 = "{<<>>, <<104,105>>}"
LONGMSG = "{[k \\in 1..70 |-> k]}"

# ------------------------------------------------------------------------ the life of a key (composition)
LIFE_INV = ["InvLinked", "InvShares", "InvNeverFails", "InvVerify", "Emit"]


def life_slices(tier, ops=None, name="L_life"):
    """Compositions of the sub-protocols on one key (spec/props/Life.tla)."""
    th = tier == "thorough"
    seqs = ops or [
        ["sign", "refresh_dealer", "sign", "repair", "sign"],
        ["rrsign", "refresh_dkg", "rrsign", "reload", "sign"],
        ["refresh_dealer_drop", "sign", "refresh_dkg", "repair", "rrsign"],
        ["repair", "refresh_dkg", "refresh_dealer", "reload", "sign"],
        ["reload", "refresh_dkg", "refresh_dealer_drop", "sign"],
    ]
    if th and ops is None:
        import itertools
        alls = ["sign", "rrsign", "refresh_dealer", "refresh_dkg", "refresh_dealer_drop", "repair", "reload"]
        # every ordered triple of different operations, followed by a signing session (210 sequences)
        seqs = [list(p) + ["sign"] for p in itertools.permutations(alls, 3)]
    opseqs = "{" + ", ".join("<<" + ",".join('"%s"' % o for o in s) + ">>" for s in seqs) + "}"
    return [dict(name=name, module="Life", invariants=LIFE_INV, timeout=1500, consts=consts(
        11, Shapes="{<<4,2>>, <<4,3>>}" if th else "{<<4,3>>}", IdSets="{{2,5,7,10}}",
        Inits='{"dealer","dkg"}', OpSeqs=opseqs, Vals="{3}", RandChoices="{1}", Msg="<<104,105>>",
        DomH3="{2,5}", DomH1="{5}", DomH2="{3}", DomHDKG="{4}", DomHR="{6}", EMIT="TRUE"))]


# ------------------------------------------------------------------------ C01
C01_INV = ["InvHonestOk", "InvSchnorr", "InvKeys", "Emit"]


def c01_slices(tier):
    th = tier == "thorough"
    sl = []
    # A: every identifier set and signer subset; a few values
    sl.append(dict(name="A_shapes_ids", module="C01", invariants=C01_INV, timeout=3000, consts=consts(
        7, Shapes="{<<2,2>>, <<3,2>>, <<3,3>>}",
        IdSets=subsets_of_size(1, 6, [2, 3]) if th else "{S \\in SUBSET {1,2,5,6} : Cardinality(S) \\in {2,3}}",
        KeyChoices="{3}", CoeffChoices="{0,5}", RandChoices="{1,2}" if th else "{1}", Msgs="{<<104,105>>}",
        ListOrders='{"asc","rot"}', CoordPkps='{"current","legacy"}', MaxExtra="1", DomH3="{2,5}", DomH1="{1,5}", DomH2="{0,3}",
        EMIT="TRUE")))
    # B: every key, polynomial and nonce value for one identifier set
    sl.append(dict(name="B_values", module="C01", invariants=C01_INV, consts=consts(
        7, Shapes="{<<3,2>>}", IdSets="{{2,3,5}}", KeyChoices="1..6", CoeffChoices=ZQ(7),
        RandChoices="{1}", Msgs="{<<>>}", MaxExtra="0", DomH3=ZQ(7), DomH1="{1,5}", DomH2="{3}", EMIT="TRUE")))
    # C: every oracle answer (binding factors, challenge, message/list hashes)
    sl.append(dict(name="C_oracle", module="C01", invariants=C01_INV, consts=consts(
        7, Shapes="{<<2,2>>}", IdSets="{{3,5}}", KeyChoices="{4}", CoeffChoices="{6}",
        RandChoices="{1,2}", Msgs=MSG2, MaxExtra="0", DomH3="{2,5}", DomH1=ZQ(7), DomH2=ZQ(7),
        DomH4="{0,255}", DomH5="{9}", EMIT="TRUE")))
    # D: shape slice (t = 4, |S| in {4,5}) in another field
    sl.append(dict(name="D_shape_t4", module="C01", invariants=C01_INV, consts=consts(
        11, Shapes="{<<4,4>>, <<5,4>>}", IdSets="{{1,2,3,4}, {2,5,7,10}, {1,2,3,4,5}, {1,3,6,8,10}}",
        KeyChoices="{7}", CoeffChoices="{3,0}" if th else "{3}", RandChoices="{1}", Msgs=LONGMSG, MaxExtra="1", ListOrders='{"asc","desc"}',
        DomH3="{4,9}", DomH1="{3,8}", DomH2="{5}", EMIT="TRUE")))
    # S: size sweep: every signer-set size 2..N (t = n = |S|, one behaviour per size) in Toy<257>
    sizes = "(2..66) \\cup {100,127,128,129}" if th else "(2..12) \\cup {16,17,31,32,33,63,64,65}"
    sl.append(dict(name="S_size_sweep", module="C01", invariants=C01_INV, timeout=3000, consts=consts(
        257, Shapes="{<<n,n>> : n \\in %s}" % sizes, IdSets="{1..n : n \\in %s}" % sizes, KeyChoices="{200}",
        CoeffChoices="{3}", RandChoices="{1}", Msgs="{<<104,105>>}", MaxExtra="0", DomH3="{77}", DomH1="{5}",
        DomH2="{100}", EMIT="TRUE")))
    # T: identifiers that differ in the most significant byte of their encoding only (1 = 0x0001, 257 = 0x0101),
    # in the witness field q = 23099
    sl.append(dict(name="T_top_byte_ids", module="C01", invariants=C01_INV, consts=consts(
        23099, Shapes="{<<3,2>>, <<4,3>>}", IdSets="{{1,257,2}, {1,257,513,258}, {255,511,256}}", KeyChoices="{20000}",
        CoeffChoices="{3}", RandChoices="{1}", Msgs="{<<104,105>>}", MaxExtra="1", DomH3="{77,9000}", DomH1="{5}",
        DomH2="{100}", EMIT="TRUE")))
    sl += life_slices(tier)
    if th:
        sl.append(dict(name="E_q11_values", module="C01", invariants=C01_INV, timeout=3000, consts=consts(
            11, Shapes="{<<3,2>>, <<3,3>>}", IdSets="{{1,2,3}, {4,9,10}}", KeyChoices="1..10", CoeffChoices=ZQ(11),
            RandChoices="{1}", Msgs="{<<>>}", MaxExtra="1", DomH3="{0,2,7}", DomH1="{1,5}", DomH2="{3,10}",
            EMIT="TRUE")))
        sl.append(dict(name="F_q13_ids", module="C01", invariants=C01_INV, timeout=3000, consts=consts(
            13, Shapes="{<<3,2>>, <<4,3>>}", IdSets=subsets_of_size(1, 12, [3, 4]).replace("1..12", "{1,2,5,11,12}"),
            KeyChoices="{5}", CoeffChoices="{0,9}", RandChoices="{1}", Msgs="{<<1>>}", MaxExtra="1",
            DomH3="{2,5}", DomH1="{6}", DomH2="{4}", EMIT="TRUE")))
    return _c01_defaults(sl)


def _c01_defaults(sl):
    for s in sl:
        if s.get("module") == "C01":
            s["consts"].setdefault("ListOrders", '{"asc"}')
            s["consts"].setdefault("BatchAtEnd", "FALSE")
            s["consts"].setdefault("CoordPkps", '{"current"}')
    return sl


# C01's statement names: aggregation succeeds, every share verifies, the
# signature verifies (also after a wire round trip).  Values are C02's business.
C01_FATAL = {"split:ok", "kp_from_ss:ok", "commit:ok", "sign:ok", "verify_share:ok", "aggregate:ok",
             "verify:ok", "verify:roundtrip_ok", "*:panic"}

# ------------------------------------------------------------------------ C04
C04_INV = ["InvAggregate", "InvVerifyShare", "InvReleased", "Emit"]
MODES3 = '<<"Disabled", "FirstCheater", "AllCheaters">>'


def c04_slices(tier):
    th = tier == "thorough"
    base = dict(KeyChoices="{3}", CoeffChoices="{5}", RandChoices="{1}", MsgA="<<104,105>>", MsgB="<<>>",
                DomH3="{2,5}", DomH1="{1,5}", DomH2="{3}", Modes=MODES3, MaxCheaters="99", CoordPkps='{"current"}', EMIT="TRUE")
    sl = []
    # S: size sweep: 2..10 signers (thorough: 16), up to two cheaters (+1 / -1: a cancelling pair) at every position
    nmax = 16 if th else 10
    sl.append(dict(name="S_size_sweep", module="C04", invariants=C04_INV, timeout=3000, consts=consts(
        257, Shapes="{<<n,n>> : n \\in 2..%d}" % nmax, IdSets="{1..n : n \\in 2..%d}" % nmax, MaxExtra="0", Deltas="{1,256}",
        Kinds='{"add"}', **dict(base, KeyChoices="{200}", DomH3="{77}", DomH1="{5}", DomH2="{100}", MaxCheaters="2"))))
    # A: every cheater subset x kind, three signers, all three modes
    sl.append(dict(name="A_subsets_kinds", module="C04", invariants=C04_INV, consts=consts(
        7, Shapes="{<<3,2>>}", IdSets="{{2,3,5}}", MaxExtra="1", Deltas="{1,6}" if not th else "1..6",
        Kinds='{"add","neg","zero","other","sessB","negnonce"}', **dict(base, CoordPkps='{"current","legacy"}'))))
    # B: every offset value for every non-empty cheater subset, two signers of {3,5}
    sl.append(dict(name="B_offsets", module="C04", invariants=C04_INV, consts=consts(
        7, Shapes="{<<2,2>>, <<3,2>>}", IdSets="{{3,5}, {1,3,5}}", MaxExtra="0", Deltas="1..6",
        Kinds='{"add"}', **dict(base, DomH2="{0,3,6}", DomH3="{0,2,5}"))))
    # C: shape slice: four signers, t = 4, middle/last cheaters
    sl.append(dict(name="C_shape_s4", module="C04", invariants=C04_INV, consts=consts(
        11, Shapes="{<<4,4>>}", IdSets="{{1,2,3,4}, {2,5,7,10}}", MaxExtra="0", Deltas="{1}",
        Kinds='{"add","neg","other","negnonce"}' if th else '{"add","negnonce"}',
        **dict(base, DomH3="{4}", DomH1="{3}", KeyChoices="{7}", CoeffChoices="{3}"))))
    if th:
        sl.append(dict(name="D_q11", module="C04", invariants=C04_INV, timeout=3000, consts=consts(
            11, Shapes="{<<3,2>>, <<3,3>>}", IdSets="{{1,2,3}, {4,9,10}}", MaxExtra="1", Deltas="{1,5,10}",
            Kinds='{"add","neg","zero","other","sessB"}', **dict(base, DomH3="{2,5,0}", DomH2="{3,0}"))))
    return sl


# C04's statement: Ok/Err of aggregation, validity of what is released, the exact
# culprit lists, per-share verification verdicts
C04_FATAL = {"aggregate:ok", "aggregate:culprits", "verify:ok", "verify:roundtrip_ok", "verify_share:ok",
             "verify_share:culprits", "sign:ok", "*:panic"}

# ------------------------------------------------------------------------ C05
C05_INV = ["InvRefusals", "InvGenSound", "InvForeignNeedsCoincidence", "InvMixCulprits", "Emit"]
ALLPROBES = '{"xsess","mix","msg","comm","drop","add","vk","id","own","ident","relabel"}'


def c05_slices(tier):
    th = tier == "thorough"
    base = dict(KeyChoices="{3}", Key2Choices="{5}", CoeffChoices="{5}", RandChoices="{1}", MsgA="<<104,105>>",
                MsgB="<<104>>", DomH3="{2,5}", DomH1="{1,5}", DomH2="{3,4}", CommDeltas="{1,3}", CoordPkps='{"current"}', EMIT="TRUE")
    sl = []
    sl.append(dict(name="A_probes", module="C05", invariants=C05_INV, consts=consts(
        7, Shapes="{<<3,2>>}", IdSets="{{2,3,5}}", MaxExtra="1" if th else "0", Probes=ALLPROBES,
        **dict(base, CoordPkps='{"current","legacy"}'))))
    sl.append(dict(name="B_same_msg", module="C05", invariants=C05_INV, consts=consts(
        7, Shapes="{<<2,2>>}", IdSets="{{3,5}}", MaxExtra="0", Probes='{"xsess","mix","comm","id"}' if th else '{"xsess","mix"}',
        **dict(base, MsgB="<<104,105>>", RandChoices="{1,2}", DomH3="{2,5}", DomH1="{0,1,5}" if th else "{1,5}",
               DomH2="{3,4}" if th else "{3}"))))
    sl.append(dict(name="C_shape_s4", module="C05", invariants=C05_INV, consts=consts(
        11, Shapes="{<<4,3>>}", IdSets="{{1,2,3,4}, {2,5,7,10}}", MaxExtra="1", Probes=ALLPROBES,
        **dict(base, DomH3="{4}", DomH1="{3}", DomH2="{5}", KeyChoices="{7}", CoeffChoices="{3}", CommDeltas="{1}"))))
    return sl


# C05's statement: accept/reject of share verification and aggregation, refusals of sign;
# the binding-factor preimage must cover every field: the code's hash queries must be the model's
C05_FATAL = {"aggregate:ok", "aggregate:culprits", "verify_share:ok", "sign:ok", "*:oracle_miss", "*:panic"}

# ------------------------------------------------------------------------ C06
C06_INV = ["InvParams", "InvSplit", "InvKp", "InvTamper", "InvRecon", "Emit"]


def c06_slices(tier):
    th = tier == "thorough"
    sl = []
    # A: parameter ladder: every (n,t) in 0..4 (+ u16 extremes) x identifier lists incl. wrong count / duplicates
    sl.append(dict(name="A_params", module="C06", invariants=C06_INV, consts=consts(
        7, Shapes="{<<n,t>> : n \\in {0,1,2,3,4,65535}, t \\in {0,1,2,3,4,65535}}",
        IdLists="{<<1,2>>, <<2,5,3>>, <<3,3>>, <<1,2,1>>, <<1,2,3,4>>, <<6,5,4,3>>, <<2,2,3,4>>, <<1>>, << >>}",
        UseDefault="TRUE", KeyChoices="{3}", CoeffChoices="{2}", Probes='{"recon"}', Deltas="{1}", EMIT="TRUE")))
    # B: all keys and polynomials, every single-coordinate tampering with every wrong value
    sl.append(dict(name="B_values_tamper", module="C06", invariants=C06_INV, consts=consts(
        7, Shapes="{<<3,2>>, <<3,3>>}", IdLists="{<<2,3,5>>, <<6,1,4>>}", UseDefault="FALSE",
        KeyChoices="1..6", CoeffChoices=ZQ(7), Probes='{"tamper","recon"}', Deltas="1..6", EMIT="TRUE")))
    # C: shape slice: degree 3 (t = 4), n in {4,5}: higher powers of the identifier
    sl.append(dict(name="C_shape_t4", module="C06", invariants=C06_INV, consts=consts(
        11, Shapes="{<<4,4>>, <<5,4>>}", IdLists="{<<1,2,3,4>>, <<2,5,7,10>>, <<1,2,3,4,5>>, <<10,3,6,8,1>>}",
        UseDefault="TRUE", KeyChoices="{7,1}", CoeffChoices="{3,0,10}" if th else "{3,10}", Probes='{"tamper","recon"}',
        Deltas="{1,10}", EMIT="TRUE")))
    if th:
        sl.append(dict(name="D_q13_t3", module="C06", invariants=C06_INV, timeout=3000, consts=consts(
            13, Shapes="{<<4,3>>}", IdLists="{<<1,2,3,4>>, <<12,5,7,2>>}", UseDefault="FALSE",
            KeyChoices="{1,6,12}", CoeffChoices=ZQ(13), Probes='{"tamper","recon"}', Deltas="{1,5,12}", EMIT="TRUE")))
    return sl


C06_FATAL = {"split:ok", "split:shares", "split:commit", "split:vs", "split:vk", "split:min", "split:commit_same",
             "split:keyed_by_own_id", "kp_from_ss:ok", "kp_from_ss:id", "kp_from_ss:share", "kp_from_ss:vs",
             "kp_from_ss:vk", "kp_from_ss:min", "reconstruct:ok", "reconstruct:key", "*:panic"}

# ------------------------------------------------------------------------ C03
C03_INV = ["InvRefuse", "InvNoForgery", "InvNoThresholdlessRepair", "InvNoThresholdLoweringRefresh", "Emit"]


def c03_slices(tier):
    th = tier == "thorough"
    base = dict(RandChoices="{1}", Msg="<<104,105>>", DomH3="{2,5}", DomH1="{1,5}", DomH2="{3}",
                LiePkp='{"lower","none"}', EMIT="TRUE")
    sl = []
    sl.append(dict(name="A_t2_t3_values", module="C03", invariants=C03_INV, consts=consts(
        7, Shapes="{<<2,2>>, <<3,2>>, <<3,3>>}", IdSets="{{3,5}, {2,3,5}, {1,4,6}}", KeyChoices="1..6",
        CoeffChoices=ZQ(7), **base)))
    sl.append(dict(name="B_shape_t4", module="C03", invariants=C03_INV, consts=consts(
        11, Shapes="{<<4,4>>, <<5,4>>}", IdSets="{{1,2,3,4}, {2,5,7,10}, {1,3,6,8,10}}", KeyChoices="{7}",
        CoeffChoices="{3,0}", **dict(base, DomH3="{4}", DomH1="{3}"))))
    if th:
        sl.append(dict(name="C_q11_t3", module="C03", invariants=C03_INV, timeout=3000, consts=consts(
            11, Shapes="{<<3,3>>, <<4,3>>}", IdSets="{{1,2,3}, {4,9,10}, {1,2,3,4}}", KeyChoices="{1,5,10}",
            CoeffChoices=ZQ(11), **base)))
    return sl


def c03_secrecy(ctx):
    import lib
    jobs = [("secrecy_q5_t2", dict(Q=5, T=2, IdPool="1..4")), ("secrecy_q5_t3", dict(Q=5, T=3, IdPool="1..4")),
            ("secrecy_q7_t3", dict(Q=7, T=3, IdPool="{1,2,5,6}"))]
    if ctx.tier == "thorough":
        jobs += [("secrecy_q5_t4", dict(Q=5, T=4, IdPool="1..4")), ("secrecy_q7_t2", dict(Q=7, T=2, IdPool="1..6"))]
    for name, c in jobs:
        lib.assume_stage(ctx, name, "C03Secrecy", c)


C03_FATAL = {"repair3:ok", "repair1:ok", "sign:ok", "aggregate:ok", "aggregate:refused_on_count", "dkg3:ok", "verify:ok", "reconstruct:ok", "reconstruct:key", "split:ok", "split:shares",
             "split:commit", "split:rng_unused", "split:rng_overrun", "*:panic"}

# ------------------------------------------------------------------------ C07
C07_INV = ["InvDkgOk", "InvOutputs", "InvSignOk", "InvSchnorr", "Emit"]


def c07_slices(tier):
    th = tier == "thorough"
    base = dict(RandChoices="{1}", Msg="<<104,105>>", DomH3="{2,5}", DomH1="{1,5}", DomH2="{3}", SweepSigners="FALSE", EMIT="TRUE")
    sl = []
    # S: shape sweep: every (n, t) up to n = 8 (thorough: 12); the t smallest / largest identifiers sign
    nmax = 12 if th else 8
    sl.append(dict(name="S_shape_sweep", module="C07", invariants=C07_INV, timeout=3000, consts=consts(
        13, Shapes="{sh \\in (2..%d) \\X (2..%d) : sh[2] <= sh[1]}" % (nmax, nmax), IdSets="{1..n : n \\in 2..%d}" % nmax,
        A0Choices="{7}", CoeffChoices="{3}", KChoices="{2}", MaxExtra="0", DomHDKG="{4}",
        **dict(base, DomH3="{4}", DomH1="{3}", DomH2="{5}", SweepSigners="TRUE"))))
    # A: identifier sets (non-contiguous; own id smallest/largest), two polynomials per participant
    sl.append(dict(name="A_ids", module="C07", invariants=C07_INV, consts=consts(
        7, Shapes="{<<2,2>>, <<3,2>>, <<3,3>>}", IdSets="{{3,5}, {1,2,3}, {2,5,6}, {1,4,6}}",
        A0Choices="{3}", CoeffChoices="{0,5}", KChoices="{2}", MaxExtra="1", DomHDKG="{4}", **base)))
    # B: every constant term, coefficient, proof nonce and challenge for one set
    sl.append(dict(name="B_values", module="C07", invariants=C07_INV, consts=consts(
        7, Shapes="{<<2,2>>}", IdSets="{{3,5}}", A0Choices="1..6", CoeffChoices=ZQ(7), KChoices="{2,6}",
        MaxExtra="0", DomHDKG="{0,4}", **dict(base, DomH3="{2}", DomH1="{5}"))))
    # C: shape slice t = 4 / n = 4, and n = 4 t = 3
    sl.append(dict(name="C_shape_n4", module="C07", invariants=C07_INV, consts=consts(
        11, Shapes="{<<4,4>>, <<4,3>>}", IdSets="{{1,2,3,4}, {2,5,7,10}}", A0Choices="{7}", CoeffChoices="{3}",
        KChoices="{2}", MaxExtra="1", DomHDKG="{4}", **dict(base, DomH3="{4}", DomH1="{3}"))))
    if th:
        sl.append(dict(name="D_q11_polys", module="C07", invariants=C07_INV, timeout=3000, consts=consts(
            11, Shapes="{<<3,2>>, <<3,3>>}", IdSets="{{1,2,3}, {4,9,10}}", A0Choices="{1,10}", CoeffChoices="{0,3,7}",
            KChoices="{2}", MaxExtra="0", DomHDKG="{4}", **dict(base, DomH3="{2}", DomH1="{5}"))))
    return sl


C07_FATAL = {"dkg1:ok", "dkg2:ok", "dkg3:ok", "dkg3:kp", "dkg3:pkp", "dkg2:r2", "dkg2:own", "commit:ok", "sign:ok",
             "aggregate:ok", "verify:ok", "verify:roundtrip_ok", "*:panic"}

# ------------------------------------------------------------------------ C08
C08_INV = ["InvNoSilentAccept", "InvCulprits", "InvCaught", "Emit"]
ALLFAULTS = ('{"none","r1field","r1len","r1swap","r1graft","r1own","r1unknown","r1missing","r1surplus","r1late",'
             '"r2delta","r2route","r2own","r2unknown","r2missing","r2surplus","bothmissing","bothsurplus"}')


def c08_slices(tier):
    th = tier == "thorough"
    sl = []
    # A: every (receiver, sender) pair x every fault kind x every field x every wrong value
    sl.append(dict(name="A_all_faults", module="C08", invariants=C08_INV, consts=consts(
        7, Shapes="{<<3,2>>}", IdSets="{{2,3,5}}", A0Choices="{3,6}" if th else "{3}", CoeffChoices="{5,0}",
        KChoices="{2}", Deltas="1..6", Faults=ALLFAULTS, PairMode='"all"', DomHDKG="{0,4,5}" if th else "{4,5}", EMIT="TRUE")))
    # B: shape slice n = 4, t = 3 (and t = 4): last sender, own id largest / smallest
    sl.append(dict(name="B_shape_n4", module="C08", invariants=C08_INV, consts=consts(
        11, Shapes="{<<4,3>>, <<4,4>>}" if th else "{<<4,3>>}", IdSets="{{1,2,3,4}, {2,5,7,10}}", A0Choices="{7}",
        CoeffChoices="{3}", KChoices="{2}", Deltas="{1,10}", Faults=ALLFAULTS, PairMode='"all"', DomHDKG="{4}", EMIT="TRUE")))
    # S: shape sweep: every (n, t) up to n = 8 (thorough: 10), low and high thresholds; receiver/sender = smallest/largest
    nmax = 10 if th else 8
    sl.append(dict(name="S_shape_sweep", module="C08", invariants=C08_INV, timeout=3000, consts=consts(
        13, Shapes="{<<n,t>> : n \\in 2..%d, t \\in 2..%d} \\cap {sh \\in (2..%d) \\X (2..%d) : sh[2] <= sh[1]}" % (nmax, nmax, nmax, nmax),
        IdSets="{1..n : n \\in 2..%d}" % nmax, A0Choices="{7}", CoeffChoices="{3}", KChoices="{2}", Deltas="{1}",
        Faults='{"none","r1field","r2delta","bothmissing"}', PairMode='"ends"', DomHDKG="{4}", EMIT="TRUE")))
    return sl


C08_FATAL = {"dkg2:ok", "dkg3:ok", "dkg2:culprits", "dkg3:culprits", "dkg3:kp", "dkg3:pkp", "dkg1:ok", "*:panic"}

# ------------------------------------------------------------------------ C09
C09_INV = ["InvConsistent", "InvFunctionOfR1", "InvAcceptedShares", "InvGenSound", "Emit"]


def fn(d):
    """python dict -> TLA+ function literal"""
    return "(" + " @@ ".join("%s :> %s" % (k, v) for k, v in d.items()) + ")"


def seq(xs):
    return "<<" + ",".join(str(x) for x in xs) + ">>"


def c09_slices(tier):
    th = tier == "thorough"
    sl = []
    polys = [
        ("n3t2", 7, (3, 2), [2, 3, 5], {2: [3, 5], 3: [1, 0], 5: [6, 2]}, {2: [4, 1], 3: [2, 2], 5: [5, 6]}),
        ("n3t3", 7, (3, 3), [1, 4, 6], {1: [3, 5, 1], 4: [1, 0, 2], 6: [6, 2, 2]}, {1: [4, 1, 0], 4: [2, 2, 6], 6: [5, 6, 3]}),
    ]
    if th:
        polys += [
            ("n3t2b", 11, (3, 2), [1, 2, 3], {1: [3, 5], 2: [1, 7], 3: [6, 2]}, {1: [4, 1], 2: [9, 2], 3: [5, 6]}),
            ("n3t2c", 7, (3, 2), [2, 3, 5], {2: [3, 5], 3: [3, 5], 5: [6, 2]}, {2: [3, 5], 3: [2, 2], 5: [6, 3]}),
        ]
    for name, q, (n, t), ids, pa, pb in polys:
        sl.append(dict(name="A_" + name, module="C09", invariants=C09_INV, consts=consts(
            q, Shape="<<%d,%d>>" % (n, t), TB=str(len(list(pb.values())[0])), SameR1="FALSE", Ids=tla_set(ids), Who=tla_set(ids),
            PolyA=fn({k: seq(v) for k, v in pa.items()}), PolyB=fn({k: seq(v) for k, v in pb.items()}),
            KA="2", KB="3", DomHDKG="{4}", EMIT="TRUE")))
    # concurrent runs with different thresholds (a contribution of the other run has another commitment length)
    for name, q, (n, t), ids, pa, pb in [
        ("n3_tA2_tB3", 7, (3, 2), [2, 3, 5], {2: [3, 5], 3: [1, 0], 5: [6, 2]}, {2: [4, 1, 2], 3: [2, 2, 6], 5: [5, 6, 3]}),
        ("n3_tA3_tB2", 7, (3, 3), [1, 4, 6], {1: [3, 5, 1], 4: [1, 0, 2], 6: [6, 2, 2]}, {1: [4, 1], 4: [2, 2], 6: [5, 6]})]:
        sl.append(dict(name="C_" + name, module="C09", invariants=C09_INV, consts=consts(
            q, Shape="<<%d,%d>>" % (n, t), TB=str(len(list(pb.values())[0])), SameR1="TRUE", Ids=tla_set(ids),
            Who=tla_set(ids),
            PolyA=fn({k: seq(v) for k, v in pa.items()}), PolyB=fn({k: seq(v) for k, v in pb.items()}),
            KA="2", KB="3", DomHDKG="{4}", EMIT="TRUE")))
    # n = 4: one participant under test (the fillings grow as 3^3 * 3^3 * 13^3)
    if th:
        sl.append(dict(name="B_n4t3", module="C09", invariants=C09_INV, timeout=6000, xmx="24g", consts=consts(
            11, Shape="<<4,3>>", TB="3", SameR1="FALSE", Ids="{1,2,3,4}", Who="{4}",
            PolyA=fn({1: seq([3, 5, 1]), 2: seq([1, 7, 0]), 3: seq([6, 2, 9]), 4: seq([2, 2, 2])}),
            PolyB=fn({1: seq([4, 1, 1]), 2: seq([9, 2, 3]), 3: seq([5, 6, 0]), 4: seq([8, 1, 5])}),
            KA="2", KB="3", DomHDKG="{4}", EMIT="TRUE")))
    return sl


C09_FATAL = {"dkg2:ok", "dkg3:ok", "dkg3:kp", "dkg3:pkp", "dkg1:ok", "*:panic"}

# ------------------------------------------------------------------------ C10
C10_INV = ["InvRelinked", "InvSameSecret", "InvRefreshOk", "InvSigning", "InvSigning2", "InvVerify", "InvRejected", "Emit"]
ALLSCEN = '{"ok","small","unknown","tchange","nonzero","onelen","tchange_legacy"}'


def c10_slices(tier):
    th = tier == "thorough"
    base = dict(RandChoices="{1}", Msg="<<104,105>>", DomH3="{2,5}", DomH1="{1,5}", DomH2="{3}", DomHDKG="{4}",
                KChoices="{2}", Sweep="FALSE", EMIT="TRUE")
    sl = []
    # S: shape sweep: every (n, t) up to n = 7 (thorough: 10), both procedures, everybody / all but the largest remain
    nmax = 10 if th else 7
    sl.append(dict(name="S_shape_sweep", module="C10", invariants=C10_INV, timeout=3000, consts=consts(
        13, Shapes="{sh \\in (2..%d) \\X (2..%d) : sh[2] <= sh[1]}" % (nmax, nmax), IdSets="{1..n : n \\in 2..%d}" % nmax,
        KeyChoices="{7}", CoeffChoices="{3}", Procs='{"dealer","dkg"}', Scenarios='{"ok"}', RCoeffChoices="{2}", Rounds="1",
        MaxExtra="0", **dict(base, DomH3="{4}", DomH1="{3}", DomH2="{5}", Sweep="TRUE"))))
    # A: every remaining set, both procedures, all scenarios, every old/new mix
    sl.append(dict(name="A_sets_mixes", module="C10", invariants=C10_INV, consts=consts(
        7, Shapes="{<<3,2>>}", IdSets="{{2,3,5}}", KeyChoices="{3}", CoeffChoices="{5}", Procs='{"dealer","dkg"}',
        Scenarios=ALLSCEN, RCoeffChoices="{0,1,4}" if th else "{1,4}", Rounds="1", MaxExtra="1", **base)))
    # B: every refreshing polynomial of the dealer variant for every original polynomial
    sl.append(dict(name="B_dealer_values", module="C10", invariants=C10_INV, consts=consts(
        7, Shapes="{<<3,2>>}", IdSets="{{2,3,5}}", KeyChoices="1..6" if th else "{1,6}", CoeffChoices=ZQ(7),
        Procs='{"dealer"}', Scenarios='{"ok"}', RCoeffChoices=ZQ(7), Rounds="1", MaxExtra="0",
        **dict(base, DomH3="{2}", DomH1="{5}"))))
    # C: two consecutive refreshes, mixed procedures; shape n = 4, t = 3 with one participant removed
    sl.append(dict(name="C_two_rounds", module="C10", invariants=C10_INV, consts=consts(
        11, Shapes="{<<4,3>>}", IdSets="{{1,2,3,4}, {2,5,7,10}}", KeyChoices="{7}", CoeffChoices="{3}",
        Procs='{"dealer","dkg"}', Scenarios='{"ok","onelen"}', RCoeffChoices="{2}", Rounds="2", MaxExtra="1",
        **dict(base, DomH3="{4}", DomH1="{3}"))))
    sl += life_slices(tier, ops=None if th else [["refresh_dealer", "repair", "refresh_dkg", "sign"],
                                                 ["refresh_dkg", "refresh_dealer_drop", "rrsign"],
                                                 ["refresh_dealer_drop", "refresh_dealer_drop", "sign", "refresh_dkg", "sign"]])
    return sl


C10_FATAL = {"refresh_shares:ok", "refresh_shares:pkp", "refresh_shares:shares", "refresh_share:ok",
             "refresh_share:id", "refresh_share:share", "refresh_share:vs", "refresh_share:vk", "refresh_share:min",
             "dkg1:ok", "dkg2:ok", "dkg3:ok", "dkg3:kp", "dkg3:pkp", "sign:ok", "aggregate:ok", "aggregate:culprits",
             "verify:ok", "*:panic"}

# ------------------------------------------------------------------------ C11
C11_INV = ["InvDeltaSum", "InvRepairOk", "InvRepaired", "InvRefused", "InvSignOk", "InvSchnorr", "Emit"]


def c11_slices(tier):
    th = tier == "thorough"
    base = dict(RandChoices="{1}", Msg="<<104,105>>", DomH3="{2,5}", DomH1="{1,5}", DomH2="{3}", Sweep="FALSE", EMIT="TRUE")
    sl = []
    # S: shape sweep: every (n, t) up to n = 9 (thorough: 12): t or n-1 helpers (even and odd counts) repair the largest
    nmax = 12 if th else 9
    sl.append(dict(name="S_shape_sweep", module="C11", invariants=C11_INV, timeout=3000, consts=consts(
        13, Shapes="{sh \\in (3..%d) \\X (2..%d) : sh[2] < sh[1]}" % (nmax, nmax), IdSets="{1..n : n \\in 3..%d}" % nmax,
        KeyChoices="{7}", CoeffChoices="{3}", DeltaChoices="{4}", NewIds="{}", Scenarios='{"ok"}', MaxExtraH="12",
        **dict(base, DomH3="{4}", DomH1="{3}", DomH2="{5}", Sweep="TRUE"))))
    # A: every helper set and target (existing or new), all keys/polynomials, two blinding values
    sl.append(dict(name="A_sets_values", module="C11", invariants=C11_INV, consts=consts(
        7, Shapes="{<<3,2>>, <<4,2>>}" if th else "{<<3,2>>}", IdSets="{{2,3,5}, {1,2,4,6}}", KeyChoices="{1,6}" if th else "{1,3,6}",
        CoeffChoices="{0,1,3,6}" if th else ZQ(7), DeltaChoices="{0,4}", NewIds="{1,3,6}" if th else "{1,6}", Scenarios='{"ok","bad"}', MaxExtraH="2", **base)))
    # B: every blinding value
    sl.append(dict(name="B_blinding", module="C11", invariants=C11_INV, consts=consts(
        7, Shapes="{<<3,2>>, <<3,3>>}" if th else "{<<3,2>>}", IdSets="{{2,3,5}}", KeyChoices="{3}", CoeffChoices="{5}",
        DeltaChoices=ZQ(7), NewIds="{1,6}", Scenarios='{"ok"}', MaxExtraH="0", **dict(base, DomH3="{2}", DomH1="{5}"))))
    # C: shape slice: |H| = t+1, t = 3 and 4, n = 5
    sl.append(dict(name="C_shape_n5", module="C11", invariants=C11_INV, consts=consts(
        11, Shapes="{<<5,3>>, <<5,4>>}" if th else "{<<5,3>>}", IdSets="{{1,2,3,4,5}, {1,3,6,8,10}}", KeyChoices="{7}",
        CoeffChoices="{3}", DeltaChoices="{4}", NewIds="{9}", Scenarios='{"ok","bad"}', MaxExtraH="2",
        **dict(base, DomH3="{4}", DomH1="{3}"))))
    sl += life_slices(tier, ops=None if th else [["refresh_dealer", "repair", "sign"], ["refresh_dkg", "repair", "rrsign"],
                                                 ["repair", "repair", "refresh_dkg", "repair", "sign"]])
    return sl


# (which draw goes to which helper, and hence each sigma, is the implementation's business: the statement names the
# sum of a helper's outgoing values, their recipients, and the repaired package)
C11_FATAL = {"repair1:ok", "repair2:ok", "repair3:ok", "repair1:delta_ids", "repair1:delta_sum", "repair3:id", "repair3:share",
             "repair3:vs", "repair3:vk", "repair3:min", "sign:ok", "aggregate:ok", "verify:ok", "*:panic"}

# ------------------------------------------------------------------------ C15
def c15_slices(tier):
    th = tier == "thorough"
    sl = []
    # A: sequences of commit / preprocess calls with a constant, a repeating and a varying source
    sl.append(dict(name="A_call_sequences", module="C15", invariants=["InvDerivation", "Emit"], consts=consts(
        7, ShareChoices="{1,3,6}", RandChoices="{1,2}", Calls="{<<1>>, <<1,1>>, <<2>>, <<1,2>>, <<3>>, <<2,1,1>>}" if th
        else "{<<1>>, <<1,1>>, <<2>>, <<1,2>>, <<3>>}", DomH3="{0,2,5}" if th else "{2,5}", EMIT="TRUE")))
    # B: every share and every nonce value
    sl.append(dict(name="B_values", module="C15", invariants=["InvDerivation", "Emit"], consts=consts(
        7, ShareChoices="1..6", RandChoices="{7}", Calls="{<<1>>, <<2>>}" if th else "{<<1>>}", DomH3=ZQ(7), EMIT="TRUE")))
    # C: 2-byte scalars in a field with q > 256 (share encoding occupies both bytes)
    sl.append(dict(name="C_q257", module="C15", invariants=["InvDerivation", "Emit"], consts=consts(
        257, ShareChoices="{1,255,256}", RandChoices="{0,255}", Calls="{<<1>>, <<2>>}", DomH3="{0,256,3}", EMIT="TRUE")))
    # S: batch-size sweep up to the u8 maximum
    sizes = "{<<k>> : k \\in (5..70) \\cup {127,128,129,200,254,255}}" if th else "{<<k>> : k \\in {8,16,17,32,33,64,65,128,255}} \\cup {<<33,1,2>>}"
    sl.append(dict(name="S_batch_sizes", module="C15", invariants=["InvDerivation", "Emit"], consts=consts(
        257, ShareChoices="{200}", RandChoices="{1}", Calls=sizes, DomH3="{77}", EMIT="TRUE")))
    return sl


# fresh 32+32 bytes per pair (scripted source consumed exactly), preimage layout (every H3 query is the
# model's), nonce = H3 output, commitment = G*nonce
C15_FATAL = {"commit:hiding", "commit:binding", "commit:D", "commit:E", "commit:inner_comm_eq", "preprocess:pairs",
             "*:rng_unused", "*:rng_overrun", "*:oracle_miss", "commit:ok", "preprocess:ok", "*:panic"}

# ------------------------------------------------------------------------ C16
def c16_slices(tier):
    th = tier == "thorough"
    sl = []
    sl.append(dict(name="A_all_entry_points", module="C16", invariants=["InvBatchOk", "Emit"], consts=consts(
        7, Probes='{"dealer","dkg1","rdkg1","single","repair","refresh","rr","batch"}', Vals=ZQ(7),
        NZVals="{2,5}", MaxZeros="2", Shapes="{<<2,2>>, <<3,2>>, <<3,3>>, <<4,4>>, <<1,1>>, <<2,3>>}",
        DomHDKG="{4}", DomHR="{3}", DomH2="{2}", DomH3="{3}", EMIT="TRUE")))
    sl.append(dict(name="B_t5", module="C16", invariants=["InvBatchOk", "Emit"], consts=consts(
        11, Probes='{"dealer","dkg1","rdkg1"}', Vals="{0,1,10}" if not th else "{0,1,4,10}", NZVals="{7}", MaxZeros="1",
        Shapes="{<<5,5>>, <<6,4>>}", DomHDKG="{4}", EMIT="TRUE")))
    # batch blinders: one per item, also in large batches (C19's module): +1/-1 pairs 1, 32 and 64 positions apart are
    # rejected under pairwise different blinders
    sl.append(dict(name="C19_D_large_batches", module="C19", invariants=C19_INV, consts=consts(
        251, Keys="{2}", NonceChoices="{3}", MaxItems="0", Kinds='{"ok"}', Blinders="{1}", BigPlans=big_batch_plans(tier),
        DomH2="{7}", EMIT="TRUE")))
    return sl


# every listed value equals its own draw (the model's expected values are functions of the scripted draws)
# and the source is consumed exactly as scripted
C16_FATAL = {"split:shares", "split:commit", "split:vk", "split:ok", "dkg1:coeffs", "dkg1:commit", "dkg1:R", "dkg1:mu",
             "dkg1:ok", "single_sign:R", "single_sign:z", "repair1:deltas", "repair1:ok", "refresh_shares:shares",
             "refresh_shares:commit", "refresh_shares:ok", "rr_new:seed", "rr_new:alpha", "rr_new:ok", "batch:ok",
             "*:rng_unused", "*:rng_overrun", "*:panic"}

# ------------------------------------------------------------------------ C17
C17_INV = ["InvRegen", "InvParams", "InvHonest", "InvFaulty", "InvFaultyShare", "InvFew", "Emit"]


def c17_slices(tier):
    th = tier == "thorough"
    base = dict(KeyChoices="{3}", CoeffChoices="{5}", RandChoices="{1}", Msg="<<104,105>>", DomH3="{2,5}",
                DomH1="{1,5}", DomH2="{3,0}", Modes=MODES3, EMIT="TRUE")
    sl = []
    sl.append(dict(name="A_faults", module="C17", invariants=C17_INV, consts=consts(
        7, Shapes="{<<3,2>>}", IdSets="{{2,3,5}}", MaxExtra="1", SeedChoices="{5,300}",
        Faults='{"none","seed","comm","share","share2","fixed","few"}', SeedFaults='{"last","append","append0","trunc","empty"}',
        FixedAlphas="{0,1,4}", DomHR="{0,2,4}" if th else "{2,4}", **base)))
    sl.append(dict(name="B_all_randomizers", module="C17", invariants=C17_INV, consts=consts(
        7, Shapes="{<<2,2>>}", IdSets="{{3,5}}", MaxExtra="0", SeedChoices="{5}", Faults='{"none","seed","fixed"}', SeedFaults='{"last","append"}',
        FixedAlphas=ZQ(7), DomHR=ZQ(7), **dict(base, DomH2=ZQ(7) if th else "{0,3,6}"))))
    sl.append(dict(name="C_shape_s4", module="C17", invariants=C17_INV, consts=consts(
        11, Shapes="{<<4,3>>}", IdSets="{{1,2,3,4}, {2,5,7,10}}", MaxExtra="1", SeedChoices="{9}",
        Faults='{"none","seed","comm","share","share2","few"}', SeedFaults='{"last","trunc"}', FixedAlphas="{1}", DomHR="{6}",
        **dict(base, DomH3="{4}", DomH1="{3}", DomH2="{5}", KeyChoices="{7}", CoeffChoices="{3}"))))
    sl += life_slices(tier, ops=None if th else [["rrsign", "refresh_dkg", "rrsign"], ["refresh_dealer", "rrsign", "repair", "rrsign"]])
    return sl


C17_FATAL = {"rr_new:ok", "rr_regen:ok", "rr_regen:alpha", "rr_regen:alphaG", "rr_regen:vk2", "rr_new:vk2", "rr_sign:ok",
             "rr_sign_fixed:ok", "aggregate:ok", "aggregate:culprits", "aggregate:structural_same", "verify:ok", "*:oracle_miss",
             "*:panic"}

# ------------------------------------------------------------------------ C19
C19_INV = ["InvAccept", "InvSingles", "InvSoundness", "Emit"]


def big_plan(n, bad, minus=()):
    """one batch of n items under key 1, the items at positions `bad` have an altered response:
    z + 1, or z - 1 at the positions `minus` (a +1/-1 pair cancels exactly when its two blinders coincide)"""
    kd = "[j \\in 1..%d |-> IF j \\in %s THEN \"z\" ELSE \"ok\"]" % (n, tla_set(list(bad) + list(minus)))
    ds = "[j \\in 1..%d |-> IF j \\in %s THEN -1 ELSE 1]" % (n, tla_set(list(minus)))
    return "[n |-> %d, ks |-> [j \\in 1..%d |-> 1], kd |-> %s, ds |-> %s]" % (n, n, kd, ds)


def big_batch_plans(tier):
    th = tier == "thorough"
    # an invalid item at the first, a middle, the 32nd/33rd and the last position; cancelling pairs that are
    # adjacent, 32 and 64 positions apart
    plans = [big_plan(33, [1]), big_plan(40, [20]), big_plan(40, [40]), big_plan(65, [32]), big_plan(65, [33]), big_plan(64, []),
             big_plan(33, [1, 33]), big_plan(65, [1], [65]), big_plan(66, [2], [66]), big_plan(40, [3], [35]), big_plan(34, [17], [18])]
    if th:
        plans += [big_plan(65, [j]) for j in (1, 2, 31, 34, 64, 65)]
        plans += [big_plan(130, [1], [129]), big_plan(130, [2], [66]), big_plan(129, [64], [128]), big_plan(100, [10], [26])]
    return "{" + ", ".join(plans) + "}"


def c19_slices(tier):
    th = tier == "thorough"
    sl = []
    sl.append(dict(name="D_large_batches", module="C19", invariants=C19_INV, consts=consts(
        251, Keys="{2}", NonceChoices="{3}", MaxItems="0", Kinds='{"ok"}', Blinders="{1}", BigPlans=big_batch_plans(tier),
        DomH2="{7}", EMIT="TRUE")))
    sl.append(dict(name="A_positions_kinds", module="C19", invariants=C19_INV, timeout=3000, consts=consts(
        7 if th else 5, Keys="{2,3}", NonceChoices="{3}", MaxItems="3", Kinds='{"ok","z","R","msg","key"}',
        Blinders=ZQ(7) if th else "{1,4}", DomH2="{1,2}" if th else "{2}", BigPlans="{}", EMIT="TRUE")))
    # complementary +d / -d pairs under every pair of blinders (accepted exactly when the blinders repeat)
    sl.append(dict(name="C_cancelling_pairs", module="C19", invariants=C19_INV, consts=consts(
        7, Keys="{2}", NonceChoices="{3}", MaxItems="2", Kinds='{"z","R"}', Blinders=ZQ(7), DomH2="{2}", BigPlans="{}", EMIT="TRUE")))
    # threshold signatures as batch items (C01's module with the batch step at the end)
    sl += _c01_defaults([dict(name="T_threshold_items", module="C01", invariants=C01_INV, consts=consts(
        7, Shapes="{<<3,2>>}", IdSets="{{2,3,5}}", KeyChoices="{3}", CoeffChoices="{5}", RandChoices="{1}", Msgs=MSG2,
        MaxExtra="1", BatchAtEnd="TRUE", DomH3="{2,5}", DomH1="{5}", DomH2="{3}", EMIT="TRUE"))])
    sl.append(dict(name="B_four_items", module="C19", invariants=C19_INV, consts=consts(
        5, Keys="{2}", NonceChoices="{3}", MaxItems="4", Kinds='{"ok","z"}', Blinders="{0,1,4}" if not th else ZQ(5),
        DomH2="{2}", BigPlans="{}", EMIT="TRUE")))
    return sl


C19_FATAL = {"batch:ok", "batch:singles", "batch:plains", "single_sign:ok", "*:rng_unused", "*:rng_overrun", "*:panic"}

# ------------------------------------------------------------------------ C12
def c12_stages(ctx):
    import lib
    for q in (7, 13):
        lib.assume_stage(ctx, "codec_laws_q%d" % q, "CodecLaws", dict(Q=q, P=lib.TOY[q][0], GEN=lib.TOY[q][1]))
    lib.codec_stage(ctx)


def c05_codec(ctx):
    import lib
    lib.assume_stage(ctx, "codec_laws_q7", "CodecLaws", dict(Q=7, P=29, GEN=16))


# ------------------------------------------------------------------------ C13
ALLB = '{"dkg1","dkg2","dkg3","commit","rdkg1","rdkg2","rdkg3","dealer_share","dealer_kp","repair_delta","repair_sigma","repair_kp","commit2"}'


def c13_slices(tier):
    th = tier == "thorough"
    sl = []
    # every single crash point, none, and all of them; both encodings
    crash = "{{b} : b \\in %s} \\cup {{}, %s}" % (ALLB, ALLB)
    sl.append(dict(name="A_n3t2", module="C13", invariants=["InvEncodable", "InvCompletes", "Emit"], consts=consts(
        11, Shape="<<3,2>>", Ids="{2,3,7}", Polys=fn({2: seq([3, 5]), 3: seq([1, 4]), 7: seq([6, 2])}),
        RPolys=fn({2: seq([4]), 3: seq([9]), 7: seq([1])}), DCoeffs="<<8>>", KNonce="2", Crash=crash,
        Forms='{"bin","json","parts"}', Msg="<<104,105>>", DomH3="{2,5}" if th else "{2}", DomH1="{1,5}" if th else "{5}", DomH2="{3}",
        DomHDKG="{4}", EMIT="TRUE")))
    sl.append(dict(name="B_n3t3", module="C13", invariants=["InvEncodable", "InvCompletes", "Emit"], consts=consts(
        11, Shape="<<3,3>>", Ids="{1,2,3}", Polys=fn({1: seq([3, 5, 1]), 2: seq([1, 4, 8]), 3: seq([6, 2, 2])}),
        RPolys=fn({1: seq([4, 1]), 2: seq([9, 3]), 3: seq([1, 10])}), DCoeffs="<<5,8>>", KNonce="2",
        Crash="{%s, {}}" % ALLB if not th else crash, Forms='{"bin","json"}', Msg="<<>>", DomH3="{2}", DomH1="{5}",
        DomH2="{3}", DomHDKG="{4}", EMIT="TRUE")))
    # a large threshold: the saved state grows with t (a size limit in the encoder would only show here)
    n, th_ = 17, 16
    ids = list(range(1, n + 1))
    polys = {i: [((i * 7 + k * 13) % 250) + 1 for k in range(th_)] for i in ids}
    rpolys = {i: [((i * 11 + k * 5) % 250) + 1 for k in range(th_ - 1)] for i in ids}
    sl.append(dict(name="C_n17t16", module="C13", invariants=["InvEncodable", "InvCompletes", "Emit"], timeout=3000, consts=consts(
        251, Shape="<<%d,%d>>" % (n, th_), Ids="1..%d" % n, Polys=fn({k: seq(v) for k, v in polys.items()}),
        RPolys=fn({k: seq(v) for k, v in rpolys.items()}), DCoeffs=seq([((k * 17) % 250) + 1 for k in range(th_ - 1)]), KNonce="2",
        Crash="{%s}" % ALLB, Forms='{"bin"}', Msg="<<1>>", DomH3="{2}", DomH1="{5}", DomH2="{3}", DomHDKG="{4}", EMIT="TRUE")))
    # size sweep (spec/props/C13Size.tla): one behaviour per threshold/group size and persistence route
    sizes = "(2..40) \\cup {63,64,65,100,128}" if th else "{2,17,37,65}"
    sl.append(dict(name="S_size_sweep", module="C13Size", invariants=["InvCompletes", "InvRestored", "Emit"], timeout=3000,
                   consts=consts(257, Sizes=sizes, Forms='{"bin","json","parts"}', Key="200", Coeff="3", NonceK="7", Msg="<<1>>",
                                 DomH3="{77}", DomH1="{5}", DomH2="{100}", DomHDKG="{4}", EMIT="TRUE")))
    return sl


# byte-equality of every later protocol output: every value the model predicts (it predicts the same values with
# and without the crash) is in the projection
C13_FATAL = {"*:*"}

# ------------------------------------------------------------------------ C18
def c18_stages(ctx):
    import lib
    th = ctx.tier == "thorough"
    defs = "MC_Ids == {1,2,3}\nMC_Z == 0..6\nMC_NZ == 1..6\nMC_Del == {1,6}\nMC_Del1 == {1}\nMC_N2 == {1,5}\nMC_R2 == {2,3}\nMC_R1 == {2}\nMC_C3 == {3}"
    cfg = ["CONSTANTS", " Q = 7", " Ids <- MC_Ids", " T = 2", " Secrets <- MC_NZ", " Coeffs <- MC_C3", " Tweaks <- MC_Z",
           " NonceVals <- MC_N2", " Rhos <- %s" % ("MC_R2" if th else "MC_R1"), " Chals <- MC_NZ",
           " Deltas <- %s" % ("MC_Del" if th else "MC_Del1"), "INIT Init", "NEXT Next", "CHECK_DEADLOCK FALSE",
           "INVARIANTS InvOutputKey InvTweakedShares InvBip340 InvShareCheck InvNoForgery InvNotUntweaked"]
    lib.plain_tlc(ctx, "parity_design_q7", "C18", cfg, defs, timeout=3000)
    defs2 = defs.replace("0..6", "0..10").replace("1..6", "1..10").replace("{1,6}", "{1,10}")
    cfg2 = [c.replace("Q = 7", "Q = 11").replace("T = 2", "T = 3").replace("MC_N2", "MC_R1").replace("MC_R2", "MC_R1")
            .replace(" Deltas <- MC_Del\b", " Deltas <- MC_Del1") for c in cfg]
    lib.plain_tlc(ctx, "parity_design_q11_t3", "C18", cfg2, defs2, timeout=3000)
    lib.taproot_stage(ctx)


# ------------------------------------------------------------------------ C14
def c14_slices(tier):
    return [dict(name="A_adversarial_combinations", module="C14", invariants=["InvTotal", "Emit"], consts=consts(
        11, Probes='{"agg_maps","sign_kp","vshare","dkg_lens","recon","repair","refresh","ss_double"}', DomH3="{2,5}", DomH1="{5}",
        DomH2="{3}", DomHDKG="{4}", EMIT="TRUE"))]


def c14_stages(ctx):
    import lib
    lib.fuzz_stage(ctx)


# ------------------------------------------------------------------------ C20
def c20_stages(ctx):
    import lib
    cfg = ["CONSTANT MaxObjs = 2", "SPECIFICATION Spec", "INVARIANTS InvNoResidue InvDebug", "CHECK_DEADLOCK FALSE"]
    lib.plain_tlc(ctx, "lifecycle_model", "FrostLifecycle", cfg, "", workers=4)
    lib.lifecycle_stage(ctx)


# ------------------------------------------------------------------------ C02
def c02_slices(tier):
    th = tier == "thorough"
    sl = [dict(s, name="C01_" + s["name"]) for s in c01_slices(tier)]
    # Toy<257>: 2-byte scalars; identifiers 1 < 255 < 256 numerically but not bytewise in little-endian
    sl.append(dict(name="E_q257_byte_order", module="C01", invariants=C01_INV, consts=consts(
        257, Shapes="{<<3,2>>, <<3,3>>}", IdSets="{{1,255,256}, {2,256,3}}", KeyChoices="{200}", CoeffChoices="{256}",
        RandChoices="{1}", Msgs=MSG2, MaxExtra="1", DomH3="{255,256}", DomH1="{3,256}", DomH2="{100}", EMIT="TRUE")))
    # four and five signers, empty / multi-block messages
    sl.append(dict(name="F_s5_long_msg", module="C01", invariants=C01_INV, consts=consts(
        13, Shapes="{<<5,4>>}", IdSets="{{1,2,3,4,5}, {12,3,6,8,10}}", KeyChoices="{7}", CoeffChoices="{3}",
        RandChoices="{1}", Msgs="{<<>>, [k \\in 1..300 |-> k % 251]}", MaxExtra="1", DomH3="{4,9}", DomH1="{3}",
        DomH2="{5}", EMIT="TRUE")))
    # nonces from given randomness through both entry points, batches of 1..3 pairs
    sl.append(dict(name="G_nonce_batches", module="C15", invariants=["InvDerivation", "Emit"], consts=consts(
        7, ShareChoices="{3}", RandChoices="{1,2}", Calls="{<<1>>, <<2>>, <<1,2>>, <<3>>}", DomH3="{2,5}", EMIT="TRUE")))
    return _c01_defaults(sl)


def c02_stages(ctx):
    import lib
    lib.spy_stage(ctx)
    lib.interop_stage(ctx)


def c15_stages(ctx):
    import lib
    lib.spy_stage(ctx, n_quick=40, n_thorough=300)


PROPS = {
    "C01": dict(slices=c01_slices, fatal=C01_FATAL, traces=True, level="model_checking",
                rule="TLC enumerates every behaviour of the C01 schedule within each slice's constants; "
                     "each finished behaviour is one script replayed on the real library under the toy "
                     "ciphersuite with TLC's random draws and oracle answers; non-trivial = distinct behaviour",
                assumptions=["TLC 1.8.0 and the CommunityModules", "the toy ciphersuite and interpreter in /verif/harness",
                             "the toy-to-real argument of DESIGN 6.2"]),
    "C05": dict(slices=c05_slices, fatal=C05_FATAL, traces=True, stages=[c05_codec], level="model_checking",
                rule="two concurrent sessions over one key; TLC enumerates every probe (cross-session share, every "
                     "A/B slot filling, every single-field substitution of the package, own-entry faults, identity "
                     "commitments) and each behaviour is replayed on the real library with exact oracle preimages",
                assumptions=["TLC 1.8.0 and the CommunityModules", "the toy ciphersuite and interpreter in /verif/harness",
                             "the toy-to-real argument of DESIGN 6.2"]),
    "C03": dict(slices=c03_slices, fatal=C03_FATAL, traces=True, stages=[c03_secrecy], level="model_checking",
                rule="every coalition of 1..t-1 holders, honest and lowered min_signers fields, all keys and "
                     "polynomials in the value slice; plus the perfect-secrecy counting ASSUME decided by TLC; "
                     "each behaviour replayed on the real library",
                assumptions=["TLC 1.8.0 and the CommunityModules", "the toy ciphersuite and interpreter in /verif/harness",
                             "the toy-to-real argument of DESIGN 6.2"]),
    "C06": dict(slices=c06_slices, fatal=C06_FATAL, traces=True, level="model_checking",
                rule="every (n,t) incl. invalid, identifier lists incl. wrong count and duplicates, every key and "
                     "polynomial in the value slice, every single-coordinate tampering with every wrong value, "
                     "every reconstruct subset; each behaviour replayed on the real library",
                assumptions=["TLC 1.8.0 and the CommunityModules", "the toy ciphersuite and interpreter in /verif/harness",
                             "the toy-to-real argument of DESIGN 6.2"]),
    "C07": dict(slices=c07_slices, fatal=C07_FATAL, traces=True, level="model_checking",
                rule="honest three-part DKG for every shape, identifier set and per-participant polynomial within the "
                     "slice constants, followed by a signing session of any >= t participants; replayed on the real library",
                assumptions=["TLC 1.8.0 and the CommunityModules", "the toy ciphersuite and interpreter in /verif/harness",
                             "the toy-to-real argument of DESIGN 6.2"]),
    "C08": dict(slices=c08_slices, fatal=C08_FATAL, traces=True, level="model_checking",
                rule="exactly one faulty contribution per behaviour: every (receiver, sender) pair x 15 fault kinds x "
                     "every field and coefficient x every wrong value in the slice; replayed on the real part2/part3",
                assumptions=["TLC 1.8.0 and the CommunityModules", "the toy ciphersuite and interpreter in /verif/harness",
                             "the toy-to-real argument of DESIGN 6.2"]),
    "C09": dict(slices=c09_slices, fatal=C09_FATAL, traces=True, level="model_checking",
                rule="two concurrent DKG runs; for every participant every assignment of {run A, run B, absent} to each "
                     "round-one slot at part2 and again at part3 and of {(run, addressee)} or absent to each round-two "
                     "slot is enumerated by TLC and executed on the real part2/part3",
                assumptions=["TLC 1.8.0 and the CommunityModules", "the toy ciphersuite and interpreter in /verif/harness",
                             "the toy-to-real argument of DESIGN 6.2"]),
    "C10": dict(slices=c10_slices, fatal=C10_FATAL, traces=True, level="model_checking",
                rule="dealer keys, then one or two refreshes (trusted dealer / distributed) of every remaining set, then a "
                     "signing attempt with every assignment of stale/fresh shares; rejected-refresh scenarios; replayed on the real library",
                assumptions=["TLC 1.8.0 and the CommunityModules", "the toy ciphersuite and interpreter in /verif/harness",
                             "the toy-to-real argument of DESIGN 6.2"]),
    "C11": dict(slices=c11_slices, fatal=C11_FATAL, traces=True, level="model_checking",
                rule="every helper set with t <= |H|, every repaired identifier (existing outside H, or new), all keys and "
                     "polynomials in the value slice, every blinding value in slice B; refused helper lists; replayed on the real library",
                assumptions=["TLC 1.8.0 and the CommunityModules", "the toy ciphersuite and interpreter in /verif/harness",
                             "the toy-to-real argument of DESIGN 6.2"]),
    "C15": dict(slices=c15_slices, fatal=C15_FATAL, traces=True, stages=[c15_stages], level="model_checking",
                rule="sequences of commit/preprocess calls under constant, repeating and varying scripted sources; every share "
                     "and every H3 answer in the value slice; the replay requires the exact RNG consumption and H3 preimages",
                assumptions=["TLC 1.8.0 and the CommunityModules", "the toy ciphersuite and interpreter in /verif/harness",
                             "the toy-to-real argument of DESIGN 6.2"]),
    "C16": dict(slices=c16_slices, fatal=C16_FATAL, traces=True, level="model_checking",
                rule="one randomised entry point per behaviour with the prescribed draw sequence incl. rejected zero draws; "
                     "replayed with scripted draws: every secret value must equal its own draw and the source be consumed exactly",
                assumptions=["TLC 1.8.0 and the CommunityModules", "the toy ciphersuite and interpreter in /verif/harness",
                             "the toy-to-real argument of DESIGN 6.2"]),
    "C17": dict(slices=c17_slices, fatal=C17_FATAL, traces=True, level="model_checking",
                rule="re-randomized sessions for every seed / explicit randomizer (zero included) in the slice, honest and with one "
                     "participant given another seed, another commitment set, or an altered share; three detection modes",
                assumptions=["TLC 1.8.0 and the CommunityModules", "the toy ciphersuite and interpreter in /verif/harness",
                             "the toy-to-real argument of DESIGN 6.2"]),
    "C19": dict(slices=c19_slices, fatal=C19_FATAL, traces=True, level="model_checking",
                rule="every batch of up to MaxItems items x every position and kind of invalid item x every blinder vector; TLC also "
                     "counts, per batch, the accepting blinder vectors (exactly q^(n-1) when an item is invalid)",
                assumptions=["TLC 1.8.0 and the CommunityModules", "the toy ciphersuite and interpreter in /verif/harness",
                             "the toy-to-real argument of DESIGN 6.2"]),
    "C12": dict(stages=[c12_stages], fatal=set(), level="model_checking",
                rule="decode/encode events for about 25 wire types x 7 suites: valid encodings, every single-bit deviation, "
                     "every value of the first and last byte, random strings, wrong lengths, the rejection catalogue (identity, "
                     "zero, >= order, small/mixed order, non-canonical field elements, version, foreign suite id), container "
                     "round trips (binary, JSON); toy: the whole 2^16 space of each primitive against the codec specification",
                level_note="TLC decides laws over observed decoder behaviour and, for the toy suite, the exact acceptance "
                           "sets; it cannot decide subgroup membership in the real curves (DESIGN 6.3): the rejection catalogue "
                           "relies on constructed small/mixed-order points (ed25519 via curve25519-dalek's torsion table)",
                assumptions=["TLC 1.8.0 and the CommunityModules", "the event generator harness/src/codec.rs",
                             "curve25519-dalek's EIGHT_TORSION table for constructing small/mixed-order points"]),
    "C13": dict(slices=c13_slices, fatal=C13_FATAL, traces=True, trace_opts=dict(paired_reload=True), level="model_checking",
                rule="DKG -> signing -> distributed refresh -> dealer refresh -> signing with save/restore (binary, JSON) of the acting "
                     "participant's secret state at each single round boundary, at none and at all of them; the model's expected "
                     "outputs are identical in all variants and every value is compared; real suites: paired runs with and without "
                     "the crash under one seed must agree on every output",
                assumptions=["TLC 1.8.0 and the CommunityModules", "the toy ciphersuite and interpreter in /verif/harness",
                             "the toy-to-real argument of DESIGN 6.2"]),
    "C18": dict(stages=[c18_stages], fatal=set(), level="model_checking",
                rule="model: the Taproot negation/tweak algebra over the toy field with an abstract parity, exhaustive over "
                     "secrets, tweak values, nonces, challenges, cheater positions (all 8 parity combinations reachable, ASSUMEd); "
                     "code: sessions of the real suite until all 2 x 4 x 8 (key source, root kind, parities) combinations "
                     "occurred, each with a 5 x 3 fault matrix, validated by TLC against the model's outcome rules with libsecp256k1 "
                     "as the independent BIP-340/341 implementation",
                level_note="the Taproot overrides are not generic over the ciphersuite, so there is no toy replay: the model decides "
                           "the design, the trace specification binds the real suite to the model's outcome rules (DESIGN 7, C18)",
                assumptions=["TLC 1.8.0", "libsecp256k1 (secp256k1 crate) and sha2 as independent BIP-340/341 implementation",
                             "parities observed through the public EvenY trait"]),
    "C14": dict(slices=c14_slices, fatal={"*:panic", "*:ok"}, traces=True, trace_opts=dict(n_quick=400, n_thorough=2000),
                stages=[c14_stages], level="exploration",
                rule="(1) adversarial combinations of otherwise valid peer messages enumerated by TLC from spec/props/C14.tla "
                     "(inconsistent maps, empty containers, thresholds 0/1/65535, commitment vectors of every length, duplicated "
                     "packages, bad helper / identifier lists), replayed on the toy suite and recorded on the witness field and the "
                     "six real suites under catch_unwind with overflow checks and debug assertions; (2) every decoder of every suite "
                     "fed valid encodings, every single-bit deviation, boundary bytes, structure-aware mutations of containers "
                     "(each position x boundary values, truncation at every position, insertions, huge length prefixes) and seeded "
                     "random strings; non-trivial = distinct input that is not a valid encoding / distinct adversarial scenario",
                level_note="a panic needs one reachable input: this is exploration, not exhaustion (DESIGN 6.3); the model contributes "
                           "the structured input space, raw bytes are explored by the harness",
                assumptions=["the harness's dev profile keeps overflow-checks and debug-assertions on",
                             "catch_unwind observes every panic (panic = abort is not configured)"]),
    "C20": dict(stages=[c20_stages], fatal=set(), level="exploration",
                rule="for each of the 6 real suites and each secret-bearing type (9 types): box a value holding known secret scalars, "
                     "install the global-allocator observer, drop it and scan every block freed for the in-memory representation of "
                     "the secrets (control: a plain copy of the same secrets dropped without wiping must be seen); zeroize() then "
                     "getters; Debug ({:?} and {:#?}) scanned for the hex of every secret encoding and of every 8-byte window of it in "
                     "both byte orders; TLC checks the events against the clause table of spec/FrostLifecycle.tla; non-trivial = "
                     "(suite, type, clause, value) case with a secret of at least 8 non-zero bytes",
                level_note="residual memory and Debug text are properties of compiled object layout and derive macros, not of protocol "
                           "state (DESIGN 6.3): the lifecycle model is a clause table, the weight is carried by the observer; the harness's "
                           "dev profile (opt-level 1, dependencies 2) is what is observed",
                assumptions=["the allocator wrapper sees every deallocation of the process", "SigningShare and Nonce are Copy: no wipe on drop, as documented in the book"]),
    "C02": dict(slices=c02_slices, fatal={"*:*"}, traces=True, stages=[c02_stages], level="model_checking",
                rule="the specification transcribes RFC 9591's protocol layer (nonce derivation, list encoding and order, the "
                     "preimage layouts, interpolation, share and aggregate equations, signature and identifier encoding) "
                     "independently of the code; toy: every value and every hash preimage of every behaviour is compared bit for "
                     "bit (incl. a field with 2-byte scalars where numeric and byte order of identifiers differ, 4-5 signers, empty "
                     "and 300-byte messages); real arithmetic: Spy<C> traces checked for the byte structure of every preimage; all "
                     "65536 u16 identifiers on three toy fields and sampled ones on the real suites; single-signer interop with "
                     "ed25519-dalek and libsecp256k1 in both directions",
                level_note="partly decidable (DESIGN 6.3): TLC cannot evaluate SHA-2/SHAKE, hash-to-field or curve arithmetic, so the "
                           "per-suite primitives are covered only by the existing RFC vectors, the two independent verifiers and the "
                           "canonical-encoding laws of C12; no second reference implementation is added",
                assumptions=["TLC 1.8.0 and the CommunityModules", "the toy ciphersuite and interpreter in /verif/harness",
                             "the toy-to-real argument of DESIGN 6.2"]),
    "C04": dict(slices=c04_slices, fatal=C04_FATAL, level="model_checking", traces=True,
                rule="TLC enumerates every filling of the share slots (honest / off by d / negated / zero / another "
                     "signer's / another session's share) for every signer subset within the slice constants and runs "
                     "the three detection modes; each behaviour is replayed on the real library; non-trivial = distinct behaviour",
                assumptions=["TLC 1.8.0 and the CommunityModules", "the toy ciphersuite and interpreter in /verif/harness",
                             "the toy-to-real argument of DESIGN 6.2"]),
}
