"""setup_cmd: build the harness from files on disk and syntax-check every TLA+ module."""
import os, subprocess, sys
import lib


def main():
    try:
        lib.build_harness()
    except lib.ToolError as e:
        print(e, file=sys.stderr)
        return 2
    bad = 0
    for root in (lib.SPEC, os.path.join(lib.SPEC, "props"), os.path.join(lib.SPEC, "trace")):
        if not os.path.isdir(root):
            continue
        for f in sorted(os.listdir(root)):
            if f.endswith(".tla"):
                # SANY needs the extended modules next to the file
                d = os.path.join(lib.WORK, "sany")
                if not os.path.isdir(d):
                    os.makedirs(d, exist_ok=True)
                    for r2 in (lib.SPEC, os.path.join(lib.SPEC, "props"), os.path.join(lib.SPEC, "trace")):
                        if os.path.isdir(r2):
                            for g in os.listdir(r2):
                                if g.endswith(".tla"):
                                    subprocess.run(["cp", os.path.join(r2, g), d])
                p = subprocess.run(f"tla-sany {f}", shell=True, cwd=d, capture_output=True, text=True)
                if p.returncode != 0 or any(m in p.stdout for m in ("Semantic errors", "*** Errors", "Parse Error", "Fatal errors", "Could not find module")):
                    print(f"SANY failed on {f}:\n{p.stdout[-1500:]}", file=sys.stderr)
                    bad += 1
    subprocess.run(["rm", "-rf", os.path.join(lib.WORK, "sany")])
    print("setup ok" if not bad else f"setup: {bad} modules failed")
    if bad:
        return 2
    # demonstrate the bindings (sabotage self-test, about 15 s)
    import selftest
    return selftest.main()
