#!/usr/bin/env python3
"""Regenerates /verif/MANIFEST.json from the property table (keeps it valid at all times)."""
import json, os, sys
sys.path.insert(0, os.path.dirname(os.path.abspath(__file__)))
import props

ROOT = os.path.dirname(os.path.dirname(os.path.abspath(__file__)))
allp = [json.loads(l) for l in open(os.path.join(ROOT, "properties.jsonl"))]
NA = getattr(props, "NOT_APPLICABLE", {})
checks = []
for p in allp:
    pid = p["id"]
    if pid not in props.PROPS:
        continue
    P = props.PROPS[pid]
    checks.append({
        "property_id": pid,
        "quick_cmd": f"./check {pid} --tier quick",
        "thorough_cmd": f"./check {pid} --tier thorough",
        "evidence_file": f"/verif/evidence/{pid}.json",
        "replay_cmd_template": f"./check {pid} --replay {{path}}",
        "engine": P.get("engine", "tlc-mc+toy-replay"),
        "level_claimed": {"category": P["level"], "text": P.get("level_text", P["rule"]),
                          "design_ref": P.get("design_ref", f"DESIGN.md section 7 ({pid})")},
        "level_note": P.get("level_note", "; ".join(P["assumptions"])),
        "technique": P.get("technique", "explicit TLA+ specification checked by TLC (exhaustive slices over a toy field); "
                                        "TLC-generated behaviours replayed on the real code; recorded traces validated by TLC"),
    })
m = {"version": 1,
     "setup_cmd": "./check --setup",
     "hooks": {"guard": "frost_verif",
               "enable": "no hooks are needed: instrumented ciphersuites (Toy, Spy) live in /verif/harness and run the unmodified library",
               "baseline_off_cmd": "cd /repo && cargo test --workspace --no-fail-fast --offline",
               "source_commits": [], "add_only": True},
     "engines": [
         {"name": "tlc-mc+toy-replay", "path": "spec/ + harness/", "serves_properties": [c["property_id"] for c in checks],
          "kind_free_text": "TLC model checking of the TLA+ specification; behaviours emitted as scripts and replayed on the real library under the toy ciphersuite; traces of real-suite runs validated by TLC"}],
     "checks": checks,
     "notes": "See DESIGN.md. ./check <ID> --tier quick|thorough; exit 0 held, 1 VIOLATION, 2 tool failure.",
     "not_applicable": [{"property_id": p["id"], "reason": NA.get(p["id"], "check not built yet (planned, see DESIGN.md section 7)")}
                        for p in allp if p["id"] not in props.PROPS]}
json.dump(m, open(os.path.join(ROOT, "MANIFEST.json"), "w"), indent=1)
print("manifest:", len(checks), "checks,", len(m["not_applicable"]), "not applicable")
