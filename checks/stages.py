"""Stages of a property check and their composition."""
import json, os, subprocess, sys
import lib
from lib import log, ToolError


def run_property(ctx, P):
    if "slices" in P:
        lib.model_stage(ctx, P["slices"](ctx.tier), P["fatal"])
    if P.get("traces", False):
        lib.trace_stage(ctx, P["fatal"], **P.get("trace_opts", {}))
    for st in P.get("stages", []):
        st(ctx)
    return lib.finish(ctx, P["level"], P["rule"], P["assumptions"])


def replay_one(pid, path):
    """Re-run one saved script and print what differs."""
    if path.endswith(".log"):
        print(open(path).read())
        return 1
    p = subprocess.run(f"{lib.FV} replay --threads 1 < {path}", shell=True, capture_output=True, text=True)
    print(p.stdout)
    return 1 if "MISMATCH" in p.stdout else 0
