//! Random sources handed to the library: a scripted one (replay) and a seeded,
//! recording one (record mode).  Both log the length of every request.

use std::convert::Infallible;

use rand_core::{TryCryptoRng, TryRng};

/// Hands out scripted draws as one byte stream: the scripted byte strings are
/// concatenated and served in order, however the library chunks its requests
/// (one 64-byte request and two 32-byte requests see the same bytes).  What is
/// recorded: bytes left over (`unused`), requests past the end of the script
/// (`overrun`, served from a fallback stream) and, for information only, requests
/// that do not start and end on a scripted boundary (`mismatch`).
pub struct ScriptRng {
    stream: Vec<u8>,
    bounds: Vec<usize>,
    pub pos: usize,
    pub requests: Vec<usize>,
    pub served: Vec<Vec<u8>>,
    pub overrun: usize,
    pub mismatch: usize,
    fallback: u64,
}

impl ScriptRng {
    pub fn new(draws: Vec<Vec<u8>>) -> Self {
        let mut stream = vec![];
        let mut bounds = vec![0usize];
        for d in &draws {
            stream.extend_from_slice(d);
            bounds.push(stream.len());
        }
        ScriptRng { stream, bounds, pos: 0, requests: vec![], served: vec![], overrun: 0, mismatch: 0, fallback: 0x9e3779b97f4a7c15 }
    }
    /// scripted bytes never requested
    pub fn unused(&self) -> usize {
        self.stream.len().saturating_sub(self.pos)
    }
    fn fb(&mut self) -> u8 {
        self.fallback ^= self.fallback << 13;
        self.fallback ^= self.fallback >> 7;
        self.fallback ^= self.fallback << 17;
        (self.fallback >> 24) as u8
    }
    fn fill(&mut self, dst: &mut [u8]) {
        self.requests.push(dst.len());
        let start = self.pos;
        let mut over = false;
        for i in 0..dst.len() {
            if self.pos < self.stream.len() {
                dst[i] = self.stream[self.pos];
                self.pos += 1;
            } else {
                over = true;
                dst[i] = self.fb();
            }
        }
        if over {
            self.overrun += 1;
        } else if !(self.bounds.contains(&start) && self.bounds.contains(&self.pos)) {
            self.mismatch += 1;
        }
        self.served.push(dst.to_vec());
    }
}

impl TryRng for ScriptRng {
    type Error = Infallible;
    fn try_next_u32(&mut self) -> Result<u32, Infallible> {
        let mut b = [0u8; 4];
        self.fill(&mut b);
        Ok(u32::from_le_bytes(b))
    }
    fn try_next_u64(&mut self) -> Result<u64, Infallible> {
        let mut b = [0u8; 8];
        self.fill(&mut b);
        Ok(u64::from_le_bytes(b))
    }
    fn try_fill_bytes(&mut self, dst: &mut [u8]) -> Result<(), Infallible> {
        self.fill(dst);
        Ok(())
    }
}
impl TryCryptoRng for ScriptRng {}

/// Seeded deterministic generator (splitmix64) that records every request.
pub struct SeedRng {
    state: u64,
    pub requests: Vec<usize>,
    pub served: Vec<Vec<u8>>,
    /// when set, every byte served is this constant (a "broken" source)
    pub constant: Option<u8>,
    pub record_bytes: bool,
}

impl SeedRng {
    pub fn new(seed: u64) -> Self {
        SeedRng { state: seed ^ 0x5851f42d4c957f2d, requests: vec![], served: vec![], constant: None, record_bytes: false }
    }
    pub fn next(&mut self) -> u64 {
        self.state = self.state.wrapping_add(0x9e3779b97f4a7c15);
        let mut z = self.state;
        z = (z ^ (z >> 30)).wrapping_mul(0xbf58476d1ce4e5b9);
        z = (z ^ (z >> 27)).wrapping_mul(0x94d049bb133111eb);
        z ^ (z >> 31)
    }
    pub fn below(&mut self, n: u64) -> u64 {
        if n == 0 { 0 } else { self.next() % n }
    }
    pub fn bytes(&mut self, n: usize) -> Vec<u8> {
        let mut v = vec![0u8; n];
        self.raw_fill(&mut v);
        v
    }
    fn raw_fill(&mut self, dst: &mut [u8]) {
        let mut i = 0;
        while i < dst.len() {
            let w = self.next().to_le_bytes();
            for b in w {
                if i < dst.len() {
                    dst[i] = b;
                    i += 1;
                }
            }
        }
    }
    fn fill(&mut self, dst: &mut [u8]) {
        self.requests.push(dst.len());
        match self.constant {
            Some(c) => {
                for b in dst.iter_mut() {
                    *b = c;
                }
            }
            None => self.raw_fill(dst),
        }
        if self.record_bytes {
            self.served.push(dst.to_vec());
        }
    }
}

impl TryRng for SeedRng {
    type Error = Infallible;
    fn try_next_u32(&mut self) -> Result<u32, Infallible> {
        let mut b = [0u8; 4];
        self.fill(&mut b);
        Ok(u32::from_le_bytes(b))
    }
    fn try_next_u64(&mut self) -> Result<u64, Infallible> {
        let mut b = [0u8; 8];
        self.fill(&mut b);
        Ok(u64::from_le_bytes(b))
    }
    fn try_fill_bytes(&mut self, dst: &mut [u8]) -> Result<(), Infallible> {
        self.fill(dst);
        Ok(())
    }
}
impl TryCryptoRng for SeedRng {}
