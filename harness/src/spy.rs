//! `Spy<C>`: a transparent wrapper around a real ciphersuite `C` (same scalar and
//! element types, same ID, wire compatible) that records every hash preimage and
//! every `Field::random` call made by the unmodified generic code.

use std::cell::RefCell;
use std::marker::PhantomData;

use frost_core::{Ciphersuite, Element, Field, FieldError, Group, GroupError, Scalar};
use frost_rerandomized::RandomizedCiphersuite;
use rand_core::CryptoRng;
use serde_json::{json, Value};

use crate::interp::bytes_json;
use crate::suite::Suite;

thread_local! {
    static LOG: RefCell<Vec<(&'static str, Vec<u8>, Vec<u8>)>> = RefCell::new(vec![]);
}
/// Run `f` without leaving a trace in the query log (harness-side side computations).
pub fn unlogged<T>(f: impl FnOnce() -> T) -> T {
    let n = LOG.with(|l| l.borrow().len());
    let r = f();
    LOG.with(|l| l.borrow_mut().truncate(n));
    r
}
fn log(tag: &'static str, pre: &[u8], out: &[u8]) {
    LOG.with(|l| l.borrow_mut().push((tag, pre.to_vec(), out.to_vec())));
}
pub fn take_log() -> Vec<Value> {
    LOG.with(|l| std::mem::take(&mut *l.borrow_mut()))
        .into_iter()
        .map(|(t, p, o)| json!([t, bytes_json(&p), bytes_json(&o)]))
        .collect()
}

#[derive(Clone, Copy, PartialEq, Eq, Debug)]
pub struct Spy<C>(PhantomData<C>);
#[derive(Clone, Copy, PartialEq, Eq, Debug)]
pub struct SpyField<C>(PhantomData<C>);
#[derive(Clone, Copy, PartialEq, Eq, Debug)]
pub struct SpyGroup<C>(PhantomData<C>);

type FF<C> = <<C as Ciphersuite>::Group as Group>::Field;

impl<C: Ciphersuite> Field for SpyField<C> {
    type Scalar = Scalar<C>;
    type Serialization = <FF<C> as Field>::Serialization;
    fn zero() -> Self::Scalar {
        FF::<C>::zero()
    }
    fn one() -> Self::Scalar {
        FF::<C>::one()
    }
    fn invert(s: &Self::Scalar) -> Result<Self::Scalar, FieldError> {
        FF::<C>::invert(s)
    }
    fn random<R: CryptoRng>(rng: &mut R) -> Self::Scalar {
        let s = FF::<C>::random(rng);
        log("random", &[], FF::<C>::serialize(&s).as_ref());
        s
    }
    fn serialize(s: &Self::Scalar) -> Self::Serialization {
        FF::<C>::serialize(s)
    }
    fn little_endian_serialize(s: &Self::Scalar) -> Self::Serialization {
        FF::<C>::little_endian_serialize(s)
    }
    fn deserialize(b: &Self::Serialization) -> Result<Self::Scalar, FieldError> {
        FF::<C>::deserialize(b)
    }
}

impl<C: Ciphersuite> Group for SpyGroup<C> {
    type Field = SpyField<C>;
    type Element = Element<C>;
    type Serialization = <C::Group as Group>::Serialization;
    fn cofactor() -> Scalar<C> {
        <C::Group as Group>::cofactor()
    }
    fn identity() -> Self::Element {
        <C::Group as Group>::identity()
    }
    fn generator() -> Self::Element {
        <C::Group as Group>::generator()
    }
    fn serialize(e: &Self::Element) -> Result<Self::Serialization, GroupError> {
        <C::Group as Group>::serialize(e)
    }
    fn deserialize(b: &Self::Serialization) -> Result<Self::Element, GroupError> {
        <C::Group as Group>::deserialize(b)
    }
}

impl<C: Ciphersuite> Ciphersuite for Spy<C> {
    const ID: &'static str = C::ID;
    type Group = SpyGroup<C>;
    type HashOutput = C::HashOutput;
    type SignatureSerialization = C::SignatureSerialization;
    fn H1(m: &[u8]) -> Scalar<C> {
        let s = C::H1(m);
        log("H1", m, FF::<C>::serialize(&s).as_ref());
        s
    }
    fn H2(m: &[u8]) -> Scalar<C> {
        let s = C::H2(m);
        log("H2", m, FF::<C>::serialize(&s).as_ref());
        s
    }
    fn H3(m: &[u8]) -> Scalar<C> {
        let s = C::H3(m);
        log("H3", m, FF::<C>::serialize(&s).as_ref());
        s
    }
    fn H4(m: &[u8]) -> C::HashOutput {
        let o = C::H4(m);
        log("H4", m, o.as_ref());
        o
    }
    fn H5(m: &[u8]) -> C::HashOutput {
        let o = C::H5(m);
        log("H5", m, o.as_ref());
        o
    }
    fn HDKG(m: &[u8]) -> Option<Scalar<C>> {
        let s = C::HDKG(m)?;
        log("HDKG", m, FF::<C>::serialize(&s).as_ref());
        Some(s)
    }
    fn HID(m: &[u8]) -> Option<Scalar<C>> {
        let s = C::HID(m)?;
        log("HID", m, FF::<C>::serialize(&s).as_ref());
        Some(s)
    }
}

impl<C: RandomizedCiphersuite> RandomizedCiphersuite for Spy<C> {
    fn hash_randomizer(m: &[u8]) -> Option<Scalar<C>> {
        let s = C::hash_randomizer(m)?;
        log("HR", m, FF::<C>::serialize(&s).as_ref());
        Some(s)
    }
}

macro_rules! spy_suite {
    ($c:ty, $name:expr, $le:expr) => {
        impl Suite for Spy<$c> {
            const NAME: &'static str = $name;
            const LE: bool = $le;
            const IS_SPY: bool = true;
            fn sj(s: &Scalar<$c>) -> Value {
                bytes_json(FF::<$c>::serialize(s).as_ref())
            }
            fn ej(e: &Element<$c>) -> Value {
                match <<$c as Ciphersuite>::Group as Group>::serialize(e) {
                    Ok(b) => bytes_json(b.as_ref()),
                    Err(_) => json!([]),
                }
            }
            fn take_queries() -> Vec<Value> {
                take_log()
            }
        }
    };
}
spy_suite!(frost_ed25519::Ed25519Sha512, "spy-ed25519", true);
spy_suite!(frost_ed448::Ed448Shake256, "spy-ed448", true);
spy_suite!(frost_p256::P256Sha256, "spy-p256", false);
spy_suite!(frost_ristretto255::Ristretto255Sha512, "spy-ristretto255", true);
spy_suite!(frost_secp256k1::Secp256K1Sha256, "spy-secp256k1", false);
