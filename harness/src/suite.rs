//! What the interpreter needs to know about a ciphersuite beyond `Ciphersuite`:
//! a name and a projection of scalars / elements into JSON (exact numbers for the
//! toy suite, hex for real suites).

use frost_core::{Ciphersuite, Element, Field, Group, Scalar};
use frost_rerandomized::RandomizedCiphersuite;
use serde_json::{json, Value};

use crate::toy::{self, Toy, TE, TS};

pub fn hex(b: &[u8]) -> String {
    let mut s = String::with_capacity(b.len() * 2);
    for x in b {
        s.push_str(&format!("{:02x}", x));
    }
    s
}
pub fn unhex(s: &str) -> Option<Vec<u8>> {
    if s.len() % 2 != 0 {
        return None;
    }
    (0..s.len()).step_by(2).map(|i| u8::from_str_radix(&s[i..i + 2], 16).ok()).collect()
}

pub trait Suite: RandomizedCiphersuite {
    const NAME: &'static str;
    const IS_TOY: bool = false;
    const IS_TAPROOT: bool = false;
    /// scalar encoding is little-endian
    const LE: bool = false;
    const IS_SPY: bool = false;
    /// hash queries made since the last call (instrumented suites only): [tag, preimage, answer]
    fn take_queries() -> Vec<Value> {
        vec![]
    }

    /// An independent verifier for this suite's single-signer scheme, if one is
    /// available offline (ed25519-dalek verify_strict, libsecp256k1 BIP-340).
    fn ext_verify(_vk: &[u8], _msg: &[u8], _sig: &[u8]) -> Option<bool> {
        None
    }
    /// An independent signer: (verifying key bytes, signature bytes) in this suite's wire form.
    fn ext_sign(_seed32: &[u8], _msg: &[u8]) -> Option<(Vec<u8>, Vec<u8>)> {
        None
    }

    fn sj(s: &Scalar<Self>) -> Value {
        Value::String(hex(<<Self::Group as Group>::Field as Field>::serialize(s).as_ref()))
    }
    fn ej(e: &Element<Self>) -> Value {
        match <Self::Group as Group>::serialize(e) {
            Ok(b) => Value::String(hex(b.as_ref())),
            Err(_) => Value::String("identity".into()),
        }
    }
    /// scalar from a script literal: number (small integer) or hex string
    fn scalar_lit(v: &Value) -> Option<Scalar<Self>> {
        if let Some(n) = v.as_u64() {
            return Some(scalar_from_u64::<Self>(n));
        }
        if let Some(n) = v.as_i64() {
            let s = scalar_from_u64::<Self>(n.unsigned_abs());
            return Some(<<Self::Group as Group>::Field as Field>::zero() - s);
        }
        let b = unhex(v.as_str()?)?;
        let ser: <<Self::Group as Group>::Field as Field>::Serialization = b.as_slice().try_into().ok()?;
        <<Self::Group as Group>::Field as Field>::deserialize(&ser).ok()
    }
}

pub fn scalar_from_u64<C: Ciphersuite>(n: u64) -> Scalar<C> {
    let one = <<C::Group as Group>::Field as Field>::one();
    let mut acc = <<C::Group as Group>::Field as Field>::zero();
    for i in (0..64).rev() {
        acc = acc + acc;
        if (n >> i) & 1 == 1 {
            acc = acc + one;
        }
    }
    acc
}

impl Suite for Toy {
    const NAME: &'static str = "toy";
    const IS_TOY: bool = true;
    fn sj(s: &TS) -> Value {
        json!(s.0)
    }
    fn ej(e: &TE) -> Value {
        match toy::dlog_of(*e) {
            Some(x) => json!(x),
            None => json!({"raw": e.0}),
        }
    }
    fn take_queries() -> Vec<Value> {
        toy::oracle_take_log()
            .into_iter()
            .map(|q| json!([q.tag, crate::interp::bytes_json(&q.pre), q.ans, q.hit]))
            .collect()
    }
    fn scalar_lit(v: &Value) -> Option<TS> {
        let q = toy::params().q as i64;
        let n = v.as_i64()?;
        Some(TS((((n % q) + q) % q) as u32))
    }
}

impl Suite for frost_ed25519::Ed25519Sha512 {
    const NAME: &'static str = "ed25519";
    const LE: bool = true;
    fn ext_verify(vk: &[u8], msg: &[u8], sig: &[u8]) -> Option<bool> {
        let vk: [u8; 32] = vk.try_into().ok()?;
        let sig: [u8; 64] = sig.try_into().ok()?;
        let vk = match ed25519_dalek::VerifyingKey::from_bytes(&vk) {
            Ok(v) => v,
            Err(_) => return Some(false),
        };
        let sig = ed25519_dalek::Signature::from_bytes(&sig);
        Some(vk.verify_strict(msg, &sig).is_ok())
    }
    fn ext_sign(seed32: &[u8], msg: &[u8]) -> Option<(Vec<u8>, Vec<u8>)> {
        use ed25519_dalek::Signer;
        let seed: [u8; 32] = seed32.try_into().ok()?;
        let sk = ed25519_dalek::SigningKey::from_bytes(&seed);
        let sig = sk.sign(msg);
        Some((sk.verifying_key().to_bytes().to_vec(), sig.to_bytes().to_vec()))
    }
}
impl Suite for frost_ed448::Ed448Shake256 {
    const NAME: &'static str = "ed448";
    const LE: bool = true;
}
impl Suite for frost_p256::P256Sha256 {
    const NAME: &'static str = "p256";
}
impl Suite for frost_ristretto255::Ristretto255Sha512 {
    const NAME: &'static str = "ristretto255";
    const LE: bool = true;
}
impl Suite for frost_secp256k1::Secp256K1Sha256 {
    const NAME: &'static str = "secp256k1";
}
impl Suite for frost_secp256k1_tr::Secp256K1Sha256TR {
    const NAME: &'static str = "secp256k1-tr";
    const IS_TAPROOT: bool = true;
    fn ext_verify(vk: &[u8], msg: &[u8], sig: &[u8]) -> Option<bool> {
        bip340_verify(vk, msg, sig)
    }
    fn ext_sign(seed32: &[u8], msg: &[u8]) -> Option<(Vec<u8>, Vec<u8>)> {
        let secp = secp256k1::Secp256k1::new();
        let kp = secp256k1::Keypair::from_seckey_slice(&secp, seed32).ok()?;
        let sig = secp.sign_schnorr_no_aux_rand(msg, &kp);
        let (x, _) = kp.x_only_public_key();
        let mut vk = vec![2u8];
        vk.extend_from_slice(&x.serialize());
        Some((vk, sig.as_ref().to_vec()))
    }
}

/// libsecp256k1 BIP-340 verification under the x-only form of a 33-byte compressed key.
pub fn bip340_verify(vk: &[u8], msg: &[u8], sig: &[u8]) -> Option<bool> {
    if vk.len() != 33 {
        return None;
    }
    let secp = secp256k1::Secp256k1::verification_only();
    let xonly = match secp256k1::XOnlyPublicKey::from_slice(&vk[1..33]) {
        Ok(k) => k,
        Err(_) => return Some(false),
    };
    let sig = match secp256k1::schnorr::Signature::from_slice(sig) {
        Ok(s) => s,
        Err(_) => return Some(false),
    };
    Some(secp.verify_schnorr(&sig, msg, &xonly).is_ok())
}

pub const REAL_SUITES: &[&str] = &["ed25519", "ed448", "p256", "ristretto255", "secp256k1", "secp256k1-tr"];

/// Run a generic function for the named suite.
#[macro_export]
macro_rules! with_suite {
    ($name:expr, $f:ident ( $($arg:expr),* )) => {
        match $name {
            "toy" => $f::<$crate::toy::Toy>($($arg),*),
            "ed25519" => $f::<frost_ed25519::Ed25519Sha512>($($arg),*),
            "ed448" => $f::<frost_ed448::Ed448Shake256>($($arg),*),
            "p256" => $f::<frost_p256::P256Sha256>($($arg),*),
            "ristretto255" => $f::<frost_ristretto255::Ristretto255Sha512>($($arg),*),
            "secp256k1" => $f::<frost_secp256k1::Secp256K1Sha256>($($arg),*),
            "secp256k1-tr" => $f::<frost_secp256k1_tr::Secp256K1Sha256TR>($($arg),*),
            "spy-ed25519" => $f::<$crate::spy::Spy<frost_ed25519::Ed25519Sha512>>($($arg),*),
            "spy-ed448" => $f::<$crate::spy::Spy<frost_ed448::Ed448Shake256>>($($arg),*),
            "spy-p256" => $f::<$crate::spy::Spy<frost_p256::P256Sha256>>($($arg),*),
            "spy-ristretto255" => $f::<$crate::spy::Spy<frost_ristretto255::Ristretto255Sha512>>($($arg),*),
            "spy-secp256k1" => $f::<$crate::spy::Spy<frost_secp256k1::Secp256K1Sha256>>($($arg),*),
            other => panic!("unknown suite {other}"),
        }
    };
}
