//! C20: secret material is wiped on drop and on request and never shown in debug
//! output.  Observation through a global-allocator wrapper (every block freed
//! while watching is scanned for the in-memory representation of the secret
//! scalars), getters after zeroize(), and a scan of the Debug rendering.
//! Laws and the per-type table: spec/FrostLifecycle.tla, spec/trace/TraceLifecycle.tla.

use std::alloc::{GlobalAlloc, Layout, System};
use std::collections::BTreeMap;
use std::io::Write;
use std::sync::atomic::{AtomicBool, AtomicUsize, Ordering};

use frost_core as frost;
use frost_core::keys::dkg;
use frost_core::keys::{IdentifierList, KeyPackage, SecretShare, SigningShare};
use frost_core::round1::{Nonce, SigningNonces};
use frost_core::{Field, Group, Scalar, SigningKey};
use serde_json::{json, Value};
use zeroize::Zeroize;

use crate::rng::SeedRng;
use crate::suite::{hex, Suite};

type F<C> = <<C as frost::Ciphersuite>::Group as Group>::Field;

pub struct SpyAlloc;
static WATCH: AtomicBool = AtomicBool::new(false);
static FOUND: AtomicUsize = AtomicUsize::new(0);
static FREED: AtomicUsize = AtomicUsize::new(0);
static mut PATTERNS: [[u8; 128]; 8] = [[0; 128]; 8];
static mut PAT_LEN: [usize; 8] = [0; 8];
static mut N_PAT: usize = 0;

unsafe fn scan(ptr: *const u8, size: usize) -> usize {
    let mut hits = 0;
    let block = std::slice::from_raw_parts(ptr, size);
    let n = N_PAT;
    for k in 0..n {
        let l = PAT_LEN[k];
        if l == 0 || l > size {
            continue;
        }
        let pat = &PATTERNS[k][..l];
        let mut i = 0;
        while i + l <= size {
            if &block[i..i + l] == pat {
                hits += 1;
                break;
            }
            i += 1;
        }
    }
    hits
}

unsafe impl GlobalAlloc for SpyAlloc {
    unsafe fn alloc(&self, layout: Layout) -> *mut u8 {
        System.alloc(layout)
    }
    unsafe fn dealloc(&self, ptr: *mut u8, layout: Layout) {
        if WATCH.load(Ordering::Relaxed) {
            FREED.fetch_add(1, Ordering::Relaxed);
            let h = scan(ptr, layout.size());
            if h > 0 {
                FOUND.fetch_add(h, Ordering::Relaxed);
            }
        }
        System.dealloc(ptr, layout)
    }
    unsafe fn realloc(&self, ptr: *mut u8, layout: Layout, new_size: usize) -> *mut u8 {
        System.realloc(ptr, layout, new_size)
    }
}

fn raw<T: Copy>(t: &T) -> Vec<u8> {
    unsafe { std::slice::from_raw_parts(t as *const T as *const u8, std::mem::size_of::<T>()).to_vec() }
}

fn set_patterns(pats: &[Vec<u8>]) {
    unsafe {
        N_PAT = 0;
        for (k, p) in pats.iter().enumerate().take(8) {
            let l = p.len().min(128);
            PATTERNS[k][..l].copy_from_slice(&p[..l]);
            PAT_LEN[k] = l;
            N_PAT = k + 1;
        }
    }
}

/// Runs `f` while watching deallocations; returns (blocks freed, blocks containing a secret).
fn watch(f: impl FnOnce()) -> (usize, usize) {
    FOUND.store(0, Ordering::SeqCst);
    FREED.store(0, Ordering::SeqCst);
    WATCH.store(true, Ordering::SeqCst);
    f();
    WATCH.store(false, Ordering::SeqCst);
    (FREED.load(Ordering::SeqCst), FOUND.load(Ordering::SeqCst))
}

fn is_trivial(p: &[u8]) -> bool {
    p.iter().filter(|b| **b != 0).count() < 8
}

struct Case<'a, C: Suite> {
    out: &'a mut dyn Write,
    n: u64,
    _p: std::marker::PhantomData<C>,
}

impl<'a, C: Suite> Case<'a, C> {
    fn ev(&mut self, v: Value) {
        self.n += 1;
        let _ = writeln!(self.out, "{}", v);
    }

    /// drop test for a boxed value; `secrets` = the secret scalars it holds
    fn drop_test<T>(&mut self, ty: &str, v: T, secrets: &[Scalar<C>]) {
        let pats: Vec<Vec<u8>> = secrets.iter().map(raw).filter(|p| !is_trivial(p)).collect();
        if pats.is_empty() {
            return;
        }
        set_patterns(&pats);
        // control: a plain copy of the secrets, dropped without wiping, must be seen by the observer
        let plain: Box<Vec<Scalar<C>>> = Box::new(secrets.to_vec());
        let (_, control_found) = watch(move || drop(plain));
        // the object is present in memory with its secrets before the drop (inline or behind a pointer)
        let b = Box::new(v);
        let inline = unsafe { scan(&*b as *const T as *const u8, std::mem::size_of::<T>()) };
        let (freed, found) = watch(move || drop(b));
        self.ev(json!({"op": "lifecycle", "suite": C::NAME, "ty": ty, "action": "drop", "secrets": pats.len(),
            "control_found": control_found, "inline_before": inline, "blocks_freed": freed, "found_after_drop": found}));
    }

    fn zeroize_test(&mut self, ty: &str, after: Vec<Scalar<C>>) {
        let zero = F::<C>::zero();
        let all_zero = after.iter().all(|s| *s == zero);
        self.ev(json!({"op": "lifecycle", "suite": C::NAME, "ty": ty, "action": "zeroize", "scalars_after": after.len(),
            "all_zero": all_zero}));
    }

    fn debug_test(&mut self, ty: &str, text: String, secrets: &[Scalar<C>]) {
        let low = text.to_lowercase();
        let mut leaked = false;
        for s in secrets {
            let enc = F::<C>::serialize(s).as_ref().to_vec();
            if enc.iter().filter(|b| **b != 0).count() < 4 {
                continue;
            }
            let mut rev = enc.clone();
            rev.reverse();
            // full encodings and any 8-byte window of them, in both byte orders
            for e in [&enc, &rev] {
                let h = hex(e);
                if low.contains(&h) {
                    leaked = true;
                }
                for w in e.windows(8) {
                    if w.iter().filter(|b| **b != 0).count() >= 6 && low.contains(&hex(w)) {
                        leaked = true;
                    }
                }
            }
        }
        self.ev(json!({"op": "lifecycle", "suite": C::NAME, "ty": ty, "action": "debug", "len": text.len(), "leaked": leaked,
            "redacted_marker": low.contains("redacted")}));
    }
}

pub fn run<C: Suite>(seed: u64, rounds: u64, f: &mut dyn Write) -> u64 {
    let mut c = Case::<C> { out: f, n: 0, _p: Default::default() };
    let _ = writeln!(c.out, "{}", json!({"op": "reset", "suite": C::NAME, "seed": seed}));
    let mut rng = SeedRng::new(seed);
    for _ in 0..rounds {
        let (shares, _pkp) = frost::keys::generate_with_dealer::<C, _>(3, 2, IdentifierList::Default, &mut rng).expect("keygen");
        let (id1, ss1) = shares.iter().next().map(|(i, s)| (*i, s.clone())).unwrap();
        let kp1 = KeyPackage::<C>::try_from(ss1.clone()).expect("kp");
        let share = kp1.signing_share().to_scalar();
        let (nonces, _) = frost::round1::commit(kp1.signing_share(), &mut rng);
        let (hn, bn) = (nonces.hiding().to_scalar(), nonces.binding().to_scalar());
        let sk = SigningKey::<C>::new(&mut rng);
        let sk_s = sk.clone().to_scalar();
        let (r1s, _r1p) = dkg::part1::<C, _>(id1, 3, 2, &mut rng).expect("part1");
        let coeffs = r1s.coefficients();
        let mut r1map = BTreeMap::new();
        for (i, _) in shares.iter().skip(1) {
            let (_s, p) = dkg::part1::<C, _>(*i, 3, 2, &mut rng).expect("part1");
            r1map.insert(*i, p);
        }
        let (r2s, r2ps) = dkg::part2(r1s.clone(), &r1map).expect("part2");
        let r2_own = r2s.secret_share();
        let r2p = r2ps.values().next().cloned().unwrap();
        let r2p_s = r2p.signing_share().to_scalar();

        // ---- drop
        c.drop_test("SigningKey", sk.clone(), &[sk_s]);
        c.drop_test("SecretShare", ss1.clone(), &[share]);
        c.drop_test("KeyPackage", kp1.clone(), &[share]);
        c.drop_test("SigningNonces", nonces.clone(), &[hn, bn]);
        c.drop_test("dkg::round1::SecretPackage", r1s.clone(), &coeffs);
        c.drop_test("dkg::round2::SecretPackage", r2s.clone(), &[r2_own]);
        c.drop_test("dkg::round2::Package", r2p.clone(), &[r2p_s]);

        // ---- zeroize on request
        let mut x = ss1.clone();
        x.zeroize();
        c.zeroize_test("SecretShare", vec![x.signing_share().to_scalar()]);
        let mut x = kp1.clone();
        x.zeroize();
        c.zeroize_test("KeyPackage", vec![x.signing_share().to_scalar()]);
        let mut x = nonces.clone();
        x.zeroize();
        c.zeroize_test("SigningNonces", vec![x.hiding().to_scalar(), x.binding().to_scalar()]);
        let mut x = r1s.clone();
        x.zeroize();
        c.zeroize_test("dkg::round1::SecretPackage", x.coefficients());
        let mut x = r2s.clone();
        x.zeroize();
        c.zeroize_test("dkg::round2::SecretPackage", vec![x.secret_share()]);
        let mut x = r2p.clone();
        x.zeroize();
        c.zeroize_test("dkg::round2::Package", vec![x.signing_share().to_scalar()]);
        let mut x: SigningShare<C> = *kp1.signing_share();
        x.zeroize();
        c.zeroize_test("SigningShare", vec![x.to_scalar()]);
        let mut x: Nonce<C> = *nonces.hiding();
        x.zeroize();
        c.zeroize_test("Nonce", vec![x.to_scalar()]);

        // ---- debug rendering
        c.debug_test("SigningKey", format!("{:?} {:#?}", sk, sk), &[sk_s]);
        c.debug_test("SigningShare", format!("{:?} {:#?}", kp1.signing_share(), kp1.signing_share()), &[share]);
        c.debug_test("SecretShare", format!("{:?} {:#?}", ss1, ss1), &[share]);
        c.debug_test("KeyPackage", format!("{:?} {:#?}", kp1, kp1), &[share]);
        c.debug_test("SigningNonces", format!("{:?} {:#?}", nonces, nonces), &[hn, bn]);
        c.debug_test("dkg::round1::SecretPackage", format!("{:?} {:#?}", r1s, r1s), &coeffs);
        c.debug_test("dkg::round2::SecretPackage", format!("{:?} {:#?}", r2s, r2s), &[r2_own]);
        c.debug_test("dkg::round2::Package", format!("{:?} {:#?}", r2p, r2p), &[r2p_s]);
        let _ = (SecretShare::<C>::clone(&ss1), SigningNonces::<C>::clone(&nonces));
    }
    c.n
}
