//! C20: secret material is wiped on drop and on request and never shown in debug
//! output.  Observation through a global-allocator wrapper (every block freed
//! while watching is scanned for the in-memory representation of the secret
//! scalars), getters after zeroize(), and a scan of the Debug rendering.
//! Laws and the per-type table: spec/FrostLifecycle.tla, spec/trace/TraceLifecycle.tla.

use std::alloc::{GlobalAlloc, Layout, System};
use std::collections::BTreeMap;
use std::io::Write;
use std::sync::atomic::{AtomicBool, AtomicUsize, Ordering};

use frost_core as frost;
use frost_core::keys::dkg;
use frost_core::keys::{IdentifierList, KeyPackage, SecretShare, SigningShare};
use frost_core::round1::{Nonce, SigningNonces};
use frost_core::{Field, Group, Scalar, SigningKey};
use serde_json::{json, Value};
use zeroize::Zeroize;

use crate::rng::SeedRng;
use crate::suite::{hex, Suite};

type F<C> = <<C as frost::Ciphersuite>::Group as Group>::Field;

pub struct SpyAlloc;
static WATCH: AtomicBool = AtomicBool::new(false);
static FOUND: AtomicUsize = AtomicUsize::new(0);
static FREED: AtomicUsize = AtomicUsize::new(0);
static mut PATTERNS: [[u8; 128]; 8] = [[0; 128]; 8];
static mut PAT_LEN: [usize; 8] = [0; 8];
static mut N_PAT: usize = 0;

unsafe fn scan(ptr: *const u8, size: usize) -> usize {
    let mut hits = 0;
    let block = std::slice::from_raw_parts(ptr, size);
    let n = N_PAT;
    for k in 0..n {
        let l = PAT_LEN[k];
        if l == 0 || l > size {
            continue;
        }
        let pat = &PATTERNS[k][..l];
        let mut i = 0;
        while i + l <= size {
            if &block[i..i + l] == pat {
                hits += 1;
                break;
            }
            i += 1;
        }
    }
    hits
}

unsafe impl GlobalAlloc for SpyAlloc {
    unsafe fn alloc(&self, layout: Layout) -> *mut u8 {
        System.alloc(layout)
    }
    unsafe fn dealloc(&self, ptr: *mut u8, layout: Layout) {
        if WATCH.load(Ordering::Relaxed) {
            FREED.fetch_add(1, Ordering::Relaxed);
            let h = scan(ptr, layout.size());
            if h > 0 {
                FOUND.fetch_add(h, Ordering::Relaxed);
            }
        }
        System.dealloc(ptr, layout)
    }
    unsafe fn realloc(&self, ptr: *mut u8, layout: Layout, new_size: usize) -> *mut u8 {
        System.realloc(ptr, layout, new_size)
    }
}

fn raw<T: Copy>(t: &T) -> Vec<u8> {
    unsafe { std::slice::from_raw_parts(t as *const T as *const u8, std::mem::size_of::<T>()).to_vec() }
}

fn set_patterns(pats: &[Vec<u8>]) {
    unsafe {
        N_PAT = 0;
        for (k, p) in pats.iter().enumerate().take(8) {
            let l = p.len().min(128);
            PATTERNS[k][..l].copy_from_slice(&p[..l]);
            PAT_LEN[k] = l;
            N_PAT = k + 1;
        }
    }
}

/// Runs `f` while watching deallocations; returns (blocks freed, blocks containing a secret).
fn watch(f: impl FnOnce()) -> (usize, usize) {
    FOUND.store(0, Ordering::SeqCst);
    FREED.store(0, Ordering::SeqCst);
    WATCH.store(true, Ordering::SeqCst);
    f();
    WATCH.store(false, Ordering::SeqCst);
    (FREED.load(Ordering::SeqCst), FOUND.load(Ordering::SeqCst))
}

fn is_trivial(p: &[u8]) -> bool {
    p.iter().filter(|b| **b != 0).count() < 8
}

struct Case<'a, C: Suite> {
    out: &'a mut dyn Write,
    n: u64,
    /// how the object under test was produced
    variant: String,
    _p: std::marker::PhantomData<C>,
}

impl<'a, C: Suite> Case<'a, C> {
    fn ev(&mut self, mut v: Value) {
        self.n += 1;
        v["variant"] = json!(self.variant);
        let _ = writeln!(self.out, "{}", v);
    }

    /// drop test for a boxed value; `secrets` = the secret scalars it holds
    fn drop_test<T>(&mut self, ty: &str, v: T, secrets: &[Scalar<C>]) {
        let pats: Vec<Vec<u8>> = secrets.iter().map(raw).filter(|p| !is_trivial(p)).collect();
        if pats.is_empty() {
            return;
        }
        set_patterns(&pats);
        // control: a plain copy of the secrets, dropped without wiping, must be seen by the observer
        let plain: Box<Vec<Scalar<C>>> = Box::new(secrets.to_vec());
        let (_, control_found) = watch(move || drop(plain));
        // the object is present in memory with its secrets before the drop (inline or behind a pointer)
        let b = Box::new(v);
        let inline = unsafe { scan(&*b as *const T as *const u8, std::mem::size_of::<T>()) };
        let (freed, found) = watch(move || drop(b));
        self.ev(json!({"op": "lifecycle", "suite": C::NAME, "ty": ty, "action": "drop", "secrets": pats.len(),
            "control_found": control_found, "inline_before": inline, "blocks_freed": freed, "found_after_drop": found}));
    }

    fn zeroize_test(&mut self, ty: &str, after: Vec<Scalar<C>>) {
        let zero = F::<C>::zero();
        let all_zero = after.iter().all(|s| *s == zero);
        self.ev(json!({"op": "lifecycle", "suite": C::NAME, "ty": ty, "action": "zeroize", "scalars_after": after.len(),
            "all_zero": all_zero}));
    }

    fn debug_test(&mut self, ty: &str, text: String, secrets: &[Scalar<C>]) {
        let low = text.to_lowercase();
        let mut leaked = false;
        for s in secrets {
            let enc = F::<C>::serialize(s).as_ref().to_vec();
            if enc.iter().filter(|b| **b != 0).count() < 4 {
                continue;
            }
            let mut rev = enc.clone();
            rev.reverse();
            // full encodings and any 8-byte window of them, in both byte orders
            for e in [&enc, &rev] {
                let h = hex(e);
                if low.contains(&h) {
                    leaked = true;
                }
                for w in e.windows(8) {
                    if w.iter().filter(|b| **b != 0).count() >= 6 && low.contains(&hex(w)) {
                        leaked = true;
                    }
                }
            }
        }
        self.ev(json!({"op": "lifecycle", "suite": C::NAME, "ty": ty, "action": "debug", "len": text.len(), "leaked": leaked,
            "redacted_marker": low.contains("redacted")}));
    }
}

pub fn run<C: Suite>(seed: u64, rounds: u64, f: &mut dyn Write) -> u64 {
    let mut c = Case::<C> { out: f, n: 0, variant: String::new(), _p: Default::default() };
    let _ = writeln!(c.out, "{}", json!({"op": "reset", "suite": C::NAME, "seed": seed}));
    let mut rng = SeedRng::new(seed);
    for _ in 0..rounds {
        let (shares, _pkp) = frost::keys::generate_with_dealer::<C, _>(3, 2, IdentifierList::Default, &mut rng).expect("keygen");
        let (id1, ss1) = shares.iter().next().map(|(i, s)| (*i, s.clone())).unwrap();
        let kp1 = KeyPackage::<C>::try_from(ss1.clone()).expect("kp");
        let share = kp1.signing_share().to_scalar();
        let (nonces, _) = frost::round1::commit(kp1.signing_share(), &mut rng);
        let (hn, bn) = (nonces.hiding().to_scalar(), nonces.binding().to_scalar());
        let sk = SigningKey::<C>::new(&mut rng);
        let sk_s = sk.clone().to_scalar();
        let (r1s, _r1p) = dkg::part1::<C, _>(id1, 3, 2, &mut rng).expect("part1");
        let coeffs = r1s.coefficients();
        let mut r1map = BTreeMap::new();
        for (i, _) in shares.iter().skip(1) {
            let (_s, p) = dkg::part1::<C, _>(*i, 3, 2, &mut rng).expect("part1");
            r1map.insert(*i, p);
        }
        let (r2s, r2ps) = dkg::part2(r1s.clone(), &r1map).expect("part2");
        let r2_own = r2s.secret_share();
        let r2p = r2ps.values().next().cloned().unwrap();
        let r2p_s = r2p.signing_share().to_scalar();

        // ---- the same types by other routes: restored from their encodings, produced by the refresh
        // procedures (zero constant term), by a larger threshold, by batch pre-processing, by repair
        use frost_core::keys::refresh;
        let mut v_r1s: Vec<(&str, dkg::round1::SecretPackage<C>)> = vec![("part1", r1s.clone())];
        if let Ok(b) = r1s.serialize() {
            if let Ok(x) = dkg::round1::SecretPackage::<C>::deserialize(&b) {
                v_r1s.push(("restored", x));
            }
        }
        if let Ok((x, _)) = dkg::part1::<C, _>(id1, 6, 5, &mut rng) {
            v_r1s.push(("part1_t5", x));
        }
        let mut v_r2s: Vec<(&str, dkg::round2::SecretPackage<C>)> = vec![("part2", r2s.clone())];
        if let Ok(b) = r2s.serialize() {
            if let Ok(x) = dkg::round2::SecretPackage::<C>::deserialize(&b) {
                v_r2s.push(("restored", x));
            }
        }
        let mut v_r2p: Vec<(&str, dkg::round2::Package<C>)> = vec![("part2", r2p.clone())];
        {
            // distributed refresh among the three dealer-keyed participants
            let ids: Vec<_> = shares.keys().cloned().collect();
            let mut secs = BTreeMap::new();
            let mut pkgs = BTreeMap::new();
            for i in &ids {
                if let Ok((s1, p1)) = refresh::refresh_dkg_part1::<C, _>(*i, 3, 2, &mut rng) {
                    secs.insert(*i, s1);
                    pkgs.insert(*i, p1);
                }
            }
            if let Some(s1) = secs.get(&id1) {
                v_r1s.push(("refresh_part1", s1.clone()));
                if let Ok(b) = s1.serialize() {
                    if let Ok(x) = dkg::round1::SecretPackage::<C>::deserialize(&b) {
                        v_r1s.push(("refresh_restored", x));
                    }
                }
                let others: BTreeMap<_, _> = pkgs.iter().filter(|(k, _)| **k != id1).map(|(k, v)| (*k, v.clone())).collect();
                if let Ok((s2, ps)) = refresh::refresh_dkg_part2(s1.clone(), &others) {
                    v_r2s.push(("refresh_part2", s2));
                    if let Some(p) = ps.values().next() {
                        v_r2p.push(("refresh_part2", p.clone()));
                    }
                }
            }
        }
        let mut v_ss: Vec<(&str, SecretShare<C>)> = vec![("dealer", ss1.clone())];
        let mut v_kp: Vec<(&str, KeyPackage<C>)> = vec![("dealer", kp1.clone())];
        if let Ok(b) = ss1.serialize() {
            if let Ok(x) = SecretShare::<C>::deserialize(&b) {
                v_ss.push(("restored", x));
            }
        }
        if let Ok(b) = kp1.serialize() {
            if let Ok(x) = KeyPackage::<C>::deserialize(&b) {
                v_kp.push(("restored", x));
            }
        }
        {
            let ids: Vec<_> = shares.keys().cloned().collect();
            if let Ok((zs, _npkp)) = refresh::compute_refreshing_shares::<C, _>(_pkp.clone(), &ids, &mut rng) {
                if let Some(z) = zs.iter().find(|z| *z.identifier() == id1) {
                    v_ss.push(("refreshing", z.clone()));
                    if let Ok(k) = refresh::refresh_share(z.clone(), &kp1) {
                        v_kp.push(("refreshed", k));
                    }
                }
            }
        }
        let mut v_non: Vec<(&str, SigningNonces<C>)> = vec![("commit", nonces.clone())];
        if let Ok(b) = nonces.serialize() {
            if let Ok(x) = SigningNonces::<C>::deserialize(&b) {
                v_non.push(("restored", x));
            }
        }
        {
            let (mut ns, _) = frost::round1::preprocess(3, kp1.signing_share(), &mut rng);
            if let Some(x) = ns.pop() {
                v_non.push(("batch", x));
            }
            v_non.push(("from_nonces", SigningNonces::from_nonces(*nonces.hiding(), *nonces.binding())));
        }
        let mut v_sk: Vec<(&str, SigningKey<C>)> = vec![("new", sk.clone())];
        if let Ok(x) = SigningKey::<C>::deserialize(&sk.serialize()) {
            v_sk.push(("restored", x));
        }

        for (variant, x) in v_sk.iter() {
            let sec = [x.clone().to_scalar()];
            c.variant = variant.to_string();
            c.drop_test("SigningKey", x.clone(), &sec);
            c.debug_test("SigningKey", format!("{:?} {:#?} {:x?} {:#X?}", x, x, x, x), &sec);
        }
        for (variant, x) in v_ss.iter() {
            let sec = [x.signing_share().to_scalar()];
            c.variant = variant.to_string();
            c.drop_test("SecretShare", x.clone(), &sec);
            let mut y = x.clone();
            y.zeroize();
            c.zeroize_test("SecretShare", vec![y.signing_share().to_scalar()]);
            c.debug_test("SecretShare", format!("{:?} {:#?} {:x?} {:#X?}", x, x, x, x), &sec);
        }
        for (variant, x) in v_kp.iter() {
            let sec = [x.signing_share().to_scalar()];
            c.variant = variant.to_string();
            c.drop_test("KeyPackage", x.clone(), &sec);
            let mut y = x.clone();
            y.zeroize();
            c.zeroize_test("KeyPackage", vec![y.signing_share().to_scalar()]);
            c.debug_test("KeyPackage", format!("{:?} {:#?} {:x?} {:#X?}", x, x, x, x), &sec);
            let sh = x.signing_share();
            c.debug_test("SigningShare", format!("{:?} {:#?} {:x?} {:#X?}", sh, sh, sh, sh), &sec);
            let mut y: SigningShare<C> = *sh;
            y.zeroize();
            c.zeroize_test("SigningShare", vec![y.to_scalar()]);
        }
        for (variant, x) in v_non.iter() {
            let sec = [x.hiding().to_scalar(), x.binding().to_scalar()];
            c.variant = variant.to_string();
            c.drop_test("SigningNonces", x.clone(), &sec);
            let mut y = x.clone();
            y.zeroize();
            c.zeroize_test("SigningNonces", vec![y.hiding().to_scalar(), y.binding().to_scalar()]);
            c.debug_test("SigningNonces", format!("{:?} {:#?} {:x?} {:#X?} {:#?}", x, x, x, x, (x, 1u8)), &sec);
            let mut y: Nonce<C> = *x.hiding();
            y.zeroize();
            c.zeroize_test("Nonce", vec![y.to_scalar()]);
        }
        for (variant, x) in v_r1s.iter() {
            let sec = x.coefficients();
            c.variant = variant.to_string();
            c.drop_test("dkg::round1::SecretPackage", x.clone(), &sec);
            let mut y = x.clone();
            y.zeroize();
            c.zeroize_test("dkg::round1::SecretPackage", y.coefficients());
            c.debug_test("dkg::round1::SecretPackage", format!("{:?} {:#?} {:x?} {:#X?}", x, x, x, x), &sec);
        }
        for (variant, x) in v_r2s.iter() {
            let sec = [x.secret_share()];
            c.variant = variant.to_string();
            c.drop_test("dkg::round2::SecretPackage", x.clone(), &sec);
            let mut y = x.clone();
            y.zeroize();
            c.zeroize_test("dkg::round2::SecretPackage", vec![y.secret_share()]);
            c.debug_test("dkg::round2::SecretPackage", format!("{:?} {:#?} {:x?} {:#X?}", x, x, x, x), &sec);
        }
        for (variant, x) in v_r2p.iter() {
            let sec = [x.signing_share().to_scalar()];
            c.variant = variant.to_string();
            c.drop_test("dkg::round2::Package", x.clone(), &sec);
            let mut y = x.clone();
            y.zeroize();
            c.zeroize_test("dkg::round2::Package", vec![y.signing_share().to_scalar()]);
            c.debug_test("dkg::round2::Package", format!("{:?} {:#?} {:x?} {:#X?}", x, x, x, x), &sec);
        }
        let _ = (hn, bn, sk_s, share, coeffs.len(), r2_own, r2p_s);
        let _ = (SecretShare::<C>::clone(&ss1), SigningNonces::<C>::clone(&nonces));
    }
    c.n
}
