//! The suite crates re-export the generic library through thin wrappers
//! (`frost_p256::keys::split`, `frost_ed448::round2::sign`, ...).  Everything else in
//! this harness calls the generic functions with the suite as a type parameter, so
//! the wrappers themselves would never be observed.  Here every wrapper is called
//! next to its generic counterpart on the same arguments and the same random
//! stream; the two results must be equal (values by `PartialEq`, refusals by their
//! rendering).  One event per call pair; law in spec/trace/TraceInterop.tla.

use std::collections::BTreeMap;
use std::io::Write;

use frost_core as fc;
use serde_json::json;

use crate::rng::SeedRng;

fn same<T: PartialEq, E: std::fmt::Debug>(a: &Result<T, E>, b: &Result<T, E>) -> bool {
    match (a, b) {
        (Ok(x), Ok(y)) => x == y,
        (Err(x), Err(y)) => format!("{:?}", x) == format!("{:?}", y),
        _ => false,
    }
}

macro_rules! wrapper_suite {
    ($fname:ident, $krate:ident, $suite:ty, $name:expr) => {
        pub fn $fname(seed: u64, f: &mut dyn Write) -> u64 {
            use $krate as w;
            type C = $suite;
            let mut n = 0u64;
            let mut ev = |func: &str, case: &str, equal: bool, ok: bool| {
                n += 1;
                let _ = writeln!(f, "{}", json!({"op": "wrapper", "suite": $name, "fn": func, "case": case, "equal": equal, "ok": ok}));
            };
            for (case, nn, tt) in [("3of4", 4u16, 3u16), ("2of2", 2, 2), ("bad_min", 3, 4), ("zero", 0, 0)] {
                // ---- dealer
                let a = w::keys::generate_with_dealer(nn, tt, w::keys::IdentifierList::Default, SeedRng::new(seed));
                let b = fc::keys::generate_with_dealer::<C, _>(nn, tt, fc::keys::IdentifierList::Default, &mut SeedRng::new(seed));
                ev("keys::generate_with_dealer", case, same(&a, &b), a.is_ok());
                let sk = fc::SigningKey::<C>::new(&mut SeedRng::new(seed + 1));
                let a = w::keys::split(&sk, nn, tt, w::keys::IdentifierList::Default, &mut SeedRng::new(seed + 2));
                let b = fc::keys::split::<C, _>(&sk, nn, tt, fc::keys::IdentifierList::Default, &mut SeedRng::new(seed + 2));
                ev("keys::split", case, same(&a, &b), a.is_ok());
                let (shares, pkp) = match a {
                    Ok(x) => x,
                    Err(_) => {
                        // parameter refusals of the other entry points
                        let id = fc::Identifier::<C>::try_from(1u16).unwrap();
                        let a = w::keys::dkg::part1(id, nn, tt, SeedRng::new(seed));
                        let b = fc::keys::dkg::part1::<C, _>(id, nn, tt, &mut SeedRng::new(seed));
                        ev("keys::dkg::part1", case, same(&a, &b), a.is_ok());
                        let a = w::keys::refresh::refresh_dkg_part1(id, nn, tt, SeedRng::new(seed));
                        let b = fc::keys::refresh::refresh_dkg_part1::<C, _>(id, nn, tt, &mut SeedRng::new(seed));
                        ev("keys::refresh::refresh_dkg_part1", case, same(&a, &b), a.is_ok());
                        continue;
                    }
                };
                let kps: BTreeMap<_, _> = shares.iter().map(|(i, s)| (*i, fc::keys::KeyPackage::<C>::try_from(s.clone()).unwrap())).collect();
                let kpv: Vec<_> = kps.values().cloned().collect();
                let a = w::keys::reconstruct(&kpv);
                let b = fc::keys::reconstruct::<C>(&kpv);
                ev("keys::reconstruct", case, same(&a, &b), a.is_ok());
                let a = w::keys::reconstruct(&kpv[..1]);
                let b = fc::keys::reconstruct::<C>(&kpv[..1]);
                ev("keys::reconstruct", "too_few", same(&a, &b), a.is_ok());
                // ---- signing
                let signers: Vec<_> = kps.keys().rev().take(tt as usize).cloned().collect();
                let mut nonces = BTreeMap::new();
                let mut comms = BTreeMap::new();
                for (k, i) in signers.iter().enumerate() {
                    let a = w::round1::commit(kps[i].signing_share(), &mut SeedRng::new(seed + 10 + k as u64));
                    let b = fc::round1::commit::<C, _>(kps[i].signing_share(), &mut SeedRng::new(seed + 10 + k as u64));
                    ev("round1::commit", case, a == b, true);
                    nonces.insert(*i, a.0);
                    comms.insert(*i, a.1);
                }
                let pkg = fc::SigningPackage::<C>::new(comms.clone(), b"wrappers");
                let mut zs = BTreeMap::new();
                for i in signers.iter() {
                    let a = w::round2::sign(&pkg, &nonces[i], &kps[i]);
                    let b = fc::round2::sign::<C>(&pkg, &nonces[i], &kps[i]);
                    ev("round2::sign", case, same(&a, &b), a.is_ok());
                    if let Ok(z) = a {
                        zs.insert(*i, z);
                    }
                }
                let a = w::aggregate(&pkg, &zs, &pkp);
                let b = fc::aggregate::<C>(&pkg, &zs, &pkp);
                ev("aggregate", case, same(&a, &b), a.is_ok());
                // one share missing, one share wrong
                let mut fewer = zs.clone();
                fewer.remove(&signers[0]);
                let a = w::aggregate(&pkg, &fewer, &pkp);
                let b = fc::aggregate::<C>(&pkg, &fewer, &pkp);
                ev("aggregate", "missing_share", same(&a, &b), a.is_ok());
                if signers.len() >= 2 {
                    let mut wrong = zs.clone();
                    let other = zs[&signers[1]];
                    wrong.insert(signers[0], other);
                    let a = w::aggregate(&pkg, &wrong, &pkp);
                    let b = fc::aggregate::<C>(&pkg, &wrong, &pkp);
                    ev("aggregate", "wrong_share", same(&a, &b), a.is_ok());
                    wrapper_suite!(@custom $krate, C, pkg, wrong, pkp, ev);
                }
                // (the suite crates' src/rerandomized.rs is not part of their module tree at this commit:
                // there is no re-randomized wrapper to observe)
                // ---- distributed key generation
                let ids: Vec<_> = kps.keys().cloned().collect();
                let mut r1s = BTreeMap::new();
                let mut r1p = BTreeMap::new();
                for (k, i) in ids.iter().enumerate() {
                    let a = w::keys::dkg::part1(*i, nn, tt, SeedRng::new(seed + 100 + k as u64));
                    let b = fc::keys::dkg::part1::<C, _>(*i, nn, tt, &mut SeedRng::new(seed + 100 + k as u64));
                    ev("keys::dkg::part1", case, same(&a, &b), a.is_ok());
                    if let Ok((s, p)) = a {
                        r1s.insert(*i, s);
                        r1p.insert(*i, p);
                    }
                }
                let mut r2s = BTreeMap::new();
                let mut r2p: BTreeMap<fc::Identifier<C>, BTreeMap<fc::Identifier<C>, fc::keys::dkg::round2::Package<C>>> = BTreeMap::new();
                for i in ids.iter() {
                    let others: BTreeMap<_, _> = r1p.iter().filter(|(k, _)| *k != i).map(|(k, v)| (*k, v.clone())).collect();
                    let a = w::keys::dkg::part2(r1s[i].clone(), &others);
                    let b = fc::keys::dkg::part2::<C>(r1s[i].clone(), &others);
                    ev("keys::dkg::part2", case, same(&a, &b), a.is_ok());
                    if let Ok((s, ps)) = a {
                        r2s.insert(*i, s);
                        for (to, p) in ps {
                            r2p.entry(to).or_default().insert(*i, p);
                        }
                    }
                }
                let mut dkps = BTreeMap::new();
                let mut dpkp = None;
                for i in ids.iter() {
                    let others: BTreeMap<_, _> = r1p.iter().filter(|(k, _)| *k != i).map(|(k, v)| (*k, v.clone())).collect();
                    let a = w::keys::dkg::part3(&r2s[i], &others, &r2p[i]);
                    let b = fc::keys::dkg::part3::<C>(&r2s[i], &others, &r2p[i]);
                    ev("keys::dkg::part3", case, same(&a, &b), a.is_ok());
                    if let Ok((k, p)) = a {
                        dkps.insert(*i, k);
                        dpkp = Some(p);
                    }
                }
                // ---- refresh: dealer and distributed
                let a = w::keys::refresh::compute_refreshing_shares(pkp.clone(), &ids, &mut SeedRng::new(seed + 200));
                let b = fc::keys::refresh::compute_refreshing_shares::<C, _>(pkp.clone(), &ids, &mut SeedRng::new(seed + 200));
                ev("keys::refresh::compute_refreshing_shares", case, same(&a, &b), a.is_ok());
                if let Ok((zsh, _)) = a {
                    for z in zsh.iter() {
                        let kp = &kps[z.identifier()];
                        let a = w::keys::refresh::refresh_share(z.clone(), kp);
                        let b = fc::keys::refresh::refresh_share::<C>(z.clone(), kp);
                        ev("keys::refresh::refresh_share", case, same(&a, &b), a.is_ok());
                    }
                }
                if let Some(dpkp) = dpkp {
                    let mut s1 = BTreeMap::new();
                    let mut p1 = BTreeMap::new();
                    for (k, i) in ids.iter().enumerate() {
                        let a = w::keys::refresh::refresh_dkg_part1(*i, nn, tt, SeedRng::new(seed + 300 + k as u64));
                        let b = fc::keys::refresh::refresh_dkg_part1::<C, _>(*i, nn, tt, &mut SeedRng::new(seed + 300 + k as u64));
                        ev("keys::refresh::refresh_dkg_part1", case, same(&a, &b), a.is_ok());
                        if let Ok((s, p)) = a {
                            s1.insert(*i, s);
                            p1.insert(*i, p);
                        }
                    }
                    let mut s2 = BTreeMap::new();
                    let mut p2: BTreeMap<fc::Identifier<C>, BTreeMap<fc::Identifier<C>, fc::keys::dkg::round2::Package<C>>> = BTreeMap::new();
                    for i in ids.iter() {
                        let others: BTreeMap<_, _> = p1.iter().filter(|(k, _)| *k != i).map(|(k, v)| (*k, v.clone())).collect();
                        let a = w::keys::refresh::refresh_dkg_part2(s1[i].clone(), &others);
                        let b = fc::keys::refresh::refresh_dkg_part2::<C>(s1[i].clone(), &others);
                        ev("keys::refresh::refresh_dkg_part2", case, same(&a, &b), a.is_ok());
                        if let Ok((s, ps)) = a {
                            s2.insert(*i, s);
                            for (to, p) in ps {
                                p2.entry(to).or_default().insert(*i, p);
                            }
                        }
                    }
                    for i in ids.iter() {
                        let others: BTreeMap<_, _> = p1.iter().filter(|(k, _)| *k != i).map(|(k, v)| (*k, v.clone())).collect();
                        if let (Some(s), Some(ps), Some(kp)) = (s2.get(i), p2.get(i), dkps.get(i)) {
                            let a = w::keys::refresh::refresh_dkg_shares(s, &others, ps, dpkp.clone(), kp.clone());
                            let b = fc::keys::refresh::refresh_dkg_shares::<C>(s, &others, ps, dpkp.clone(), kp.clone());
                            ev("keys::refresh::refresh_dkg_shares", case, same(&a, &b), a.is_ok());
                        }
                    }
                }
                // ---- repair of the last participant by the first t
                if ids.len() > tt as usize {
                    let helpers: Vec<_> = ids.iter().take(tt as usize).cloned().collect();
                    let target = *ids.last().unwrap();
                    let mut deltas: BTreeMap<fc::Identifier<C>, Vec<fc::keys::repairable::Delta<C>>> = BTreeMap::new();
                    for (k, h) in helpers.iter().enumerate() {
                        let a = w::keys::repairable::repair_share_part1::<C, _>(&helpers, &kps[h], &mut SeedRng::new(seed + 400 + k as u64), target);
                        let b = fc::keys::repairable::repair_share_part1::<C, _>(&helpers, &kps[h], &mut SeedRng::new(seed + 400 + k as u64), target);
                        ev("keys::repairable::repair_share_part1", case, same(&a, &b), a.is_ok());
                        if let Ok(m) = a {
                            for (to, d) in m {
                                deltas.entry(to).or_default().push(d);
                            }
                        }
                    }
                    let mut sigmas = vec![];
                    for h in helpers.iter() {
                        if let Some(ds) = deltas.get(h) {
                            let a = w::keys::repairable::repair_share_part2(ds);
                            let b = fc::keys::repairable::repair_share_part2::<C>(ds);
                            ev("keys::repairable::repair_share_part2", case, a == b, true);
                            sigmas.push(a);
                        }
                    }
                    let a = w::keys::repairable::repair_share_part3(&sigmas, target, &pkp);
                    let b = fc::keys::repairable::repair_share_part3::<C>(&sigmas, target, &pkp);
                    ev("keys::repairable::repair_share_part3", case, same(&a, &b), a.is_ok());
                    let legacy = fc::keys::PublicKeyPackage::<C>::new(pkp.verifying_shares().clone(), *pkp.verifying_key(), None);
                    let a = w::keys::repairable::repair_share_part3(&sigmas, target, &legacy);
                    let b = fc::keys::repairable::repair_share_part3::<C>(&sigmas, target, &legacy);
                    ev("keys::repairable::repair_share_part3", "legacy_pkp", same(&a, &b), a.is_ok());
                }
            }
            n
        }
    };
    (@custom frost_secp256k1_tr, $c:ty, $pkg:ident, $wrong:ident, $pkp:ident, $ev:ident) => {
        // (the Taproot crate has no aggregate_custom wrapper)
    };
    (@custom $krate:ident, $c:ty, $pkg:ident, $wrong:ident, $pkp:ident, $ev:ident) => {
        let mk = |k: usize| match k {
            0 => fc::CheaterDetection::Disabled,
            1 => fc::CheaterDetection::FirstCheater,
            _ => fc::CheaterDetection::AllCheaters,
        };
        for (k, mname) in ["custom_disabled", "custom_first", "custom_all"].iter().enumerate() {
            let a = $krate::aggregate_custom(&$pkg, &$wrong, &$pkp, mk(k));
            let b = fc::aggregate_custom::<$c>(&$pkg, &$wrong, &$pkp, mk(k));
            $ev("aggregate_custom", mname, same(&a, &b), a.is_ok());
        }
    };
}

wrapper_suite!(run_ed25519, frost_ed25519, frost_ed25519::Ed25519Sha512, "ed25519");
wrapper_suite!(run_ed448, frost_ed448, frost_ed448::Ed448Shake256, "ed448");
wrapper_suite!(run_p256, frost_p256, frost_p256::P256Sha256, "p256");
wrapper_suite!(run_ristretto255, frost_ristretto255, frost_ristretto255::Ristretto255Sha512, "ristretto255");
wrapper_suite!(run_secp256k1, frost_secp256k1, frost_secp256k1::Secp256K1Sha256, "secp256k1");
wrapper_suite!(run_secp256k1_tr, frost_secp256k1_tr, frost_secp256k1_tr::Secp256K1Sha256TR, "secp256k1-tr");

/// Only frost-ristretto255 declares its `rerandomized` module at this commit.
fn run_ristretto255_rerandomized(seed: u64, f: &mut dyn Write) -> u64 {
    use frost_ristretto255 as w;
    type C = frost_ristretto255::Ristretto255Sha512;
    let mut n = 0u64;
    let mut ev = |func: &str, case: &str, equal: bool, ok: bool| {
        n += 1;
        let _ = writeln!(f, "{}", json!({"op": "wrapper", "suite": "ristretto255", "fn": func, "case": case, "equal": equal, "ok": ok}));
    };
    let mk = |k: usize| match k {
        0 => fc::CheaterDetection::Disabled,
        1 => fc::CheaterDetection::FirstCheater,
        _ => fc::CheaterDetection::AllCheaters,
    };
    let (shares, pkp) = match fc::keys::generate_with_dealer::<C, _>(4, 3, fc::keys::IdentifierList::Default, &mut SeedRng::new(seed)) {
        Ok(x) => x,
        Err(_) => return 0,
    };
    let kps: BTreeMap<_, _> = shares.iter().map(|(i, s)| (*i, fc::keys::KeyPackage::<C>::try_from(s.clone()).unwrap())).collect();
    let signers: Vec<_> = kps.keys().take(3).cloned().collect();
    let mut nonces = BTreeMap::new();
    let mut comms = BTreeMap::new();
    for (k, i) in signers.iter().enumerate() {
        let (nn, c) = fc::round1::commit::<C, _>(kps[i].signing_share(), &mut SeedRng::new(seed + 10 + k as u64));
        nonces.insert(*i, nn);
        comms.insert(*i, c);
    }
    let pkg = fc::SigningPackage::<C>::new(comms, b"wrappers");
    let mut zs = BTreeMap::new();
    for i in signers.iter() {
        if let Ok(z) = fc::round2::sign::<C>(&pkg, &nonces[i], &kps[i]) {
            zs.insert(*i, z);
        }
    }
    if let Ok((rp, seedbytes)) = frost_rerandomized::RandomizedParams::<C>::new_from_commitments(
        pkp.verifying_key(), pkg.signing_commitments(), &mut SeedRng::new(seed + 50)) {
        let mut rz = BTreeMap::new();
        for i in signers.iter() {
            let a = w::rerandomized::sign_with_randomizer_seed(&pkg, &nonces[i], &kps[i], &seedbytes);
            let b = frost_rerandomized::sign_with_randomizer_seed::<C>(&pkg, &nonces[i], &kps[i], &seedbytes);
            ev("rerandomized::sign_with_randomizer_seed", "3of4", same(&a, &b), a.is_ok());
            if let Ok(z) = a {
                rz.insert(*i, z);
            }
        }
        let a = w::rerandomized::aggregate(&pkg, &rz, &pkp, &rp);
        let b = frost_rerandomized::aggregate::<C>(&pkg, &rz, &pkp, &rp);
        ev("rerandomized::aggregate", "3of4", same(&a, &b), a.is_ok());
        for k in 0..3usize {
            // plain shares under randomized parameters are refused
            let a = w::rerandomized::aggregate_custom(&pkg, &zs, &pkp, mk(k), &rp);
            let b = frost_rerandomized::aggregate_custom::<C>(&pkg, &zs, &pkp, mk(k), &rp);
            ev("rerandomized::aggregate_custom", "plain_shares", same(&a, &b), a.is_ok());
            let a = w::rerandomized::aggregate_custom(&pkg, &rz, &pkp, mk(k), &rp);
            let b = frost_rerandomized::aggregate_custom::<C>(&pkg, &rz, &pkp, mk(k), &rp);
            ev("rerandomized::aggregate_custom", "3of4", same(&a, &b), a.is_ok());
        }
    }
    n
}

pub fn run(suite: &str, seed: u64, f: &mut dyn Write) -> u64 {
    match suite {
        "ed25519" => run_ed25519(seed, f),
        "ed448" => run_ed448(seed, f),
        "p256" => run_p256(seed, f),
        "ristretto255" => run_ristretto255(seed, f) + run_ristretto255_rerandomized(seed, f),
        "secp256k1" => run_secp256k1(seed, f),
        "secp256k1-tr" => run_secp256k1_tr(seed, f),
        _ => 0,
    }
}
