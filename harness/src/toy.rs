//! `Toy`: a real `frost_core::Ciphersuite` over a field small enough for TLC.
//!
//! Scalars are Z_q, elements are the order-q subgroup of Z_p^* (p = kq+1) in
//! multiplicative notation, so element and scalar arithmetic are genuinely
//! different code while the TLA+ model works with discrete logs.  Parameters are
//! run-time values held in a thread-local (one monomorphic copy of the library).
//! All hash functions are programmable oracles whose queries are logged.

use std::cell::RefCell;
use std::collections::HashMap;
use std::ops::{Add, Mul, Sub};

use frost_core::{Ciphersuite, Field, FieldError, Group, GroupError};
use frost_rerandomized::RandomizedCiphersuite;
use rand_core::CryptoRng;

#[derive(Clone, Debug, Default)]
pub struct ToyParams {
    pub q: u32,
    pub p: u32,
    pub g: u32,
    /// exp[x] = g^x mod p for x in 0..q
    pub exp: Vec<u32>,
    /// element value -> discrete log
    pub dlog: HashMap<u32, u32>,
}

/// Parameter sets (q, p, g): p prime, p = kq+1, g of order q.
pub const PARAM_SETS: &[(u32, u32, u32)] = &[
    (5, 11, 4),
    (7, 29, 16),
    (11, 23, 4),
    (13, 53, 16),
    (251, 503, 4),
    (257, 1543, 64),
    (23099, 46199, 4), // witness field, p = 2q+1 (products fit TLC's 32-bit integers)
];

fn is_prime(n: u32) -> bool {
    if n < 2 {
        return false;
    }
    let mut d = 2u32;
    while (d as u64) * (d as u64) <= n as u64 {
        if n % d == 0 {
            return false;
        }
        d += 1;
    }
    true
}

pub fn powmod(mut b: u64, mut e: u64, m: u64) -> u64 {
    let mut r = 1u64 % m;
    b %= m;
    while e > 0 {
        if e & 1 == 1 {
            r = r * b % m;
        }
        b = b * b % m;
        e >>= 1;
    }
    r
}

impl ToyParams {
    pub fn new(q: u32, p: u32, g: u32) -> Result<ToyParams, String> {
        if !is_prime(q) || !is_prime(p) || (p - 1) % q != 0 || p >= 65536 || q >= 65536 {
            return Err(format!("bad toy parameters q={q} p={p}"));
        }
        if g <= 1 || powmod(g as u64, q as u64, p as u64) != 1 {
            return Err(format!("bad toy generator g={g} for q={q} p={p}"));
        }
        let mut exp = Vec::with_capacity(q as usize);
        let mut dlog = HashMap::new();
        let mut v = 1u64;
        for x in 0..q {
            exp.push(v as u32);
            dlog.insert(v as u32, x);
            v = v * g as u64 % p as u64;
        }
        Ok(ToyParams { q, p, g, exp, dlog })
    }
    pub fn for_q(q: u32) -> Result<ToyParams, String> {
        for &(qq, p, g) in PARAM_SETS {
            if qq == q {
                return ToyParams::new(qq, p, g);
            }
        }
        Err(format!("no toy parameter set for q={q}"))
    }
}

#[derive(Clone, Debug)]
pub struct Query {
    pub tag: &'static str,
    pub pre: Vec<u8>,
    pub ans: u32,
    pub hit: bool,
}

#[derive(Default)]
pub struct Oracle {
    pub table: HashMap<(&'static str, Vec<u8>), u32>,
    pub log: Vec<Query>,
}

thread_local! {
    static PARAMS: RefCell<ToyParams> = RefCell::new(ToyParams::default());
    static ORACLE: RefCell<Oracle> = RefCell::new(Oracle::default());
}

pub fn set_params(p: ToyParams) {
    PARAMS.with(|c| *c.borrow_mut() = p);
}
pub fn params() -> ToyParams {
    PARAMS.with(|c| c.borrow().clone())
}
fn q() -> u32 {
    PARAMS.with(|c| c.borrow().q)
}
fn p() -> u32 {
    PARAMS.with(|c| c.borrow().p)
}

pub fn tag_static(tag: &str) -> Option<&'static str> {
    for t in ["H1", "H2", "H3", "H4", "H5", "HDKG", "HID", "HR"] {
        if t == tag {
            return Some(t);
        }
    }
    None
}

pub fn oracle_reset() {
    ORACLE.with(|o| {
        let mut o = o.borrow_mut();
        o.table.clear();
        o.log.clear();
    });
}
pub fn oracle_program(tag: &str, pre: Vec<u8>, ans: u32) {
    let t = tag_static(tag).expect("unknown oracle tag");
    ORACLE.with(|o| {
        o.borrow_mut().table.insert((t, pre), ans);
    });
}
/// Run `f` without leaving a trace in the query log (harness-side side computations).
pub fn oracle_unlogged<T>(f: impl FnOnce() -> T) -> T {
    let n = ORACLE.with(|o| o.borrow().log.len());
    let r = f();
    ORACLE.with(|o| o.borrow_mut().log.truncate(n));
    r
}
pub fn oracle_take_log() -> Vec<Query> {
    ORACLE.with(|o| std::mem::take(&mut o.borrow_mut().log))
}

fn fnv(tag: &str, m: &[u8]) -> u32 {
    let mut h: u64 = 0xcbf29ce484222325;
    for b in tag.as_bytes().iter().chain([0xffu8].iter()).chain(m.iter()) {
        h ^= *b as u64;
        h = h.wrapping_mul(0x100000001b3);
    }
    // fold so that low bits depend on everything
    ((h >> 32) ^ (h & 0xffff_ffff)) as u32
}

fn ask(tag: &'static str, m: &[u8], modulus: u32) -> u32 {
    ORACLE.with(|o| {
        let mut o = o.borrow_mut();
        let (ans, hit) = match o.table.get(&(tag, m.to_vec())) {
            Some(a) => (*a % modulus, true),
            None => (fnv(tag, m) % modulus, false),
        };
        o.log.push(Query { tag, pre: m.to_vec(), ans, hit });
        ans
    })
}

// ---------------------------------------------------------------- scalars

#[derive(Clone, Copy, Debug, PartialEq, Eq, Hash)]
pub struct TS(pub u32);

impl Add for TS {
    type Output = TS;
    fn add(self, o: TS) -> TS {
        TS(((self.0 as u64 + o.0 as u64) % q() as u64) as u32)
    }
}
impl Sub for TS {
    type Output = TS;
    fn sub(self, o: TS) -> TS {
        let q = q() as u64;
        TS(((self.0 as u64 + q - (o.0 as u64 % q)) % q) as u32)
    }
}
impl Mul for TS {
    type Output = TS;
    fn mul(self, o: TS) -> TS {
        TS(((self.0 as u64 * o.0 as u64) % q() as u64) as u32)
    }
}

#[derive(Clone, Copy, Debug, PartialEq, Eq)]
pub struct ToyField;

impl Field for ToyField {
    type Scalar = TS;
    type Serialization = [u8; 2];

    fn zero() -> TS {
        TS(0)
    }
    fn one() -> TS {
        TS(1 % q())
    }
    fn invert(s: &TS) -> Result<TS, FieldError> {
        if s.0 == 0 {
            return Err(FieldError::InvalidZeroScalar);
        }
        let q = q() as u64;
        Ok(TS(powmod(s.0 as u64, q - 2, q) as u32))
    }
    fn random<R: CryptoRng>(rng: &mut R) -> TS {
        // exactly one 2-byte request, reduced
        let mut b = [0u8; 2];
        rng.fill_bytes(&mut b);
        TS(u16::from_be_bytes(b) as u32 % q())
    }
    fn serialize(s: &TS) -> [u8; 2] {
        (s.0 as u16).to_be_bytes()
    }
    fn little_endian_serialize(s: &TS) -> [u8; 2] {
        (s.0 as u16).to_le_bytes()
    }
    fn deserialize(buf: &[u8; 2]) -> Result<TS, FieldError> {
        let v = u16::from_be_bytes(*buf) as u32;
        if v >= q() {
            return Err(FieldError::MalformedScalar);
        }
        Ok(TS(v))
    }
}

// ---------------------------------------------------------------- elements

/// Element of Z_p^* (only members of the order-q subgroup are ever produced by
/// honest arithmetic). "Addition" of the group is multiplication mod p.
#[derive(Clone, Copy, Debug, PartialEq, Eq, Hash)]
pub struct TE(pub u32);

impl Add for TE {
    type Output = TE;
    fn add(self, o: TE) -> TE {
        TE(((self.0 as u64 * o.0 as u64) % p() as u64) as u32)
    }
}
impl Sub for TE {
    type Output = TE;
    fn sub(self, o: TE) -> TE {
        let p = p() as u64;
        let inv = powmod(o.0 as u64, p - 2, p);
        TE(((self.0 as u64 * inv) % p) as u32)
    }
}
impl Mul<TS> for TE {
    type Output = TE;
    fn mul(self, s: TS) -> TE {
        TE(powmod(self.0 as u64, s.0 as u64, p() as u64) as u32)
    }
}

#[derive(Clone, Copy, Debug, PartialEq, Eq)]
pub struct ToyGroup;

impl Group for ToyGroup {
    type Field = ToyField;
    type Element = TE;
    type Serialization = [u8; 2];

    fn cofactor() -> TS {
        TS(1)
    }
    fn identity() -> TE {
        TE(1)
    }
    fn generator() -> TE {
        TE(PARAMS.with(|c| c.borrow().g))
    }
    fn serialize(e: &TE) -> Result<[u8; 2], GroupError> {
        if e.0 == 1 {
            return Err(GroupError::InvalidIdentityElement);
        }
        Ok((e.0 as u16).to_be_bytes())
    }
    fn deserialize(buf: &[u8; 2]) -> Result<TE, GroupError> {
        let v = u16::from_be_bytes(*buf) as u32;
        let (p, q) = (p(), q());
        if v == 0 || v >= p {
            return Err(GroupError::MalformedElement);
        }
        if v == 1 {
            return Err(GroupError::InvalidIdentityElement);
        }
        if powmod(v as u64, q as u64, p as u64) != 1 {
            return Err(GroupError::InvalidNonPrimeOrderElement);
        }
        Ok(TE(v))
    }
}

pub fn elem_of_dlog(x: u32) -> TE {
    PARAMS.with(|c| {
        let c = c.borrow();
        TE(c.exp[(x % c.q) as usize])
    })
}
pub fn dlog_of(e: TE) -> Option<u32> {
    PARAMS.with(|c| c.borrow().dlog.get(&e.0).copied())
}

// ---------------------------------------------------------------- suite

#[derive(Clone, Copy, Debug, PartialEq, Eq)]
pub struct Toy;

impl Ciphersuite for Toy {
    const ID: &'static str = "FROST-TOY-ZQ-v1";
    type Group = ToyGroup;
    type HashOutput = [u8; 1];
    type SignatureSerialization = [u8; 4];

    fn H1(m: &[u8]) -> TS {
        TS(ask("H1", m, q()))
    }
    fn H2(m: &[u8]) -> TS {
        TS(ask("H2", m, q()))
    }
    fn H3(m: &[u8]) -> TS {
        TS(ask("H3", m, q()))
    }
    fn H4(m: &[u8]) -> [u8; 1] {
        [ask("H4", m, 256) as u8]
    }
    fn H5(m: &[u8]) -> [u8; 1] {
        [ask("H5", m, 256) as u8]
    }
    fn HDKG(m: &[u8]) -> Option<TS> {
        Some(TS(ask("HDKG", m, q())))
    }
    fn HID(m: &[u8]) -> Option<TS> {
        Some(TS(ask("HID", m, q())))
    }
}

impl RandomizedCiphersuite for Toy {
    fn hash_randomizer(m: &[u8]) -> Option<TS> {
        Some(TS(ask("HR", m, q())))
    }
}
