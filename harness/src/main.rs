//! fv — the implementation side of the FROST verification framework.
//!
//!   fv replay  [--threads N] [--fail-dir DIR] [--max-fail K]   < scripts
//!       spec -> code: run TLC-emitted scenario scripts on the real library and
//!       compare every step with the model's expectation.
//!   fv record  ...   code -> spec: run scenario generators, write traces.
//!
//! Exit code 0 always means "ran to completion" (verdicts are in the output);
//! 2 = the harness itself failed.

mod interp;
mod interp2;
mod rng;
mod suite;
mod toy;
mod record;
mod codec;
mod taproot;
mod lifecycle;
mod spy;
mod interop;
mod wrappers;

#[global_allocator]
static ALLOC: lifecycle::SpyAlloc = lifecycle::SpyAlloc;

use std::collections::{BTreeMap, HashMap};
use std::io::{BufRead, Write};
use std::sync::{mpsc, Arc, Mutex};

use serde_json::{json, Value};

use interp::{diff, Interp};
use suite::Suite;

#[derive(Default)]
pub struct Report {
    pub scripts: u64,
    pub steps: u64,
    pub mismatches: u64,
    pub script_errors: u64,
    pub kinds: HashMap<String, u64>,
    pub cover: BTreeMap<String, u64>,
    pub lines: Vec<String>,
    pub failed_scripts: Vec<(String, Value)>,
}

impl Report {
    /// keep at most eight lines per kind (op, key) of mismatch: thousands of one kind must not crowd out another
    fn add_line(&mut self, line: String) -> bool {
        let kind = match serde_json::from_str::<Value>(&line) {
            Ok(v) => format!("{}:{}", v["op"].as_str().unwrap_or(""), v["key"].as_str().unwrap_or("script_error")),
            Err(_) => String::new(),
        };
        let c = self.kinds.entry(kind).or_insert(0);
        *c += 1;
        if *c <= 8 {
            self.lines.push(line);
            true
        } else {
            false
        }
    }
    fn merge(&mut self, o: Report, max_fail: usize) {
        self.scripts += o.scripts;
        self.steps += o.steps;
        self.mismatches += o.mismatches;
        self.script_errors += o.script_errors;
        for (k, v) in o.cover {
            *self.cover.entry(k).or_insert(0) += v;
        }
        self.lines.extend(o.lines);
        for f in o.failed_scripts {
            if self.failed_scripts.len() < max_fail.max(200) {
                self.failed_scripts.push(f);
            }
        }
    }
}

/// Runs one script; returns the per-step events (for traces) and pushes
/// mismatches into the report.
pub fn run_script<C: Suite>(script: &Value, idx: u64, rep: &mut Report, want_events: bool) -> Vec<Value> {
    let mut events = vec![];
    let seed = script.get("seed").and_then(|x| x.as_u64()).unwrap_or(1);
    let mut it = Interp::<C>::new(seed);
    it.log_served = want_events;
    if let Some(m) = script.get("id_mode").and_then(|x| x.as_str()) {
        it.id_mode = m.to_string();
    }
    if C::IS_TOY {
        if let Err(e) = interp::toy_setup(script) {
            rep.script_errors += 1;
            rep.add_line(json!({"script": idx, "script_error": e.0}).to_string());
            return events;
        }
    }
    if let Some(Value::Object(m)) = script.get("idmap") {
        for (k, v) in m {
            it.id_specs.insert(k.clone(), v.clone());
        }
    }
    rep.scripts += 1;
    // structural (Gen) prediction vs exact outcome: coincidence statistics
    if let (Some(pk), Some(g), Some(a)) = (script.get("probe").and_then(|x| x.as_str()),
        script.get("gen_accept").and_then(|x| x.as_bool()), script.get("accepted").and_then(|x| x.as_bool())) {
        *rep.cover.entry(format!("gen:{pk}:{}:{}", if g { "accept" } else { "reject" }, if a { "accepted" } else { "rejected" })).or_insert(0) += 1;
    }
    let mut bad = false;
    let mut keep = false; // one of this script's mismatches is of a kind not yet seen eight times
    let empty = vec![];
    let steps = script.get("steps").and_then(|x| x.as_array()).unwrap_or(&empty);
    for (si, st) in steps.iter().enumerate() {
        rep.steps += 1;
        let res = match it.step(st) {
            Ok(r) => r,
            Err(e) => {
                // a missing object after an earlier deviation is its consequence, not a script defect;
                // in record mode the scenario simply ends where an earlier call returned an error
                let lenient = script.get("lenient").and_then(|x| x.as_bool()).unwrap_or(false) && e.0.starts_with("missing handle");
                if !bad && !lenient {
                    rep.script_errors += 1;
                    rep.add_line(json!({"script": idx, "step": si, "script_error": e.0}).to_string());
                } else if bad && script.get("oracle").is_some() {
                    // the behaviour the specification predicted cannot be carried on: an earlier call left the
                    // environment different from the model's (an object is missing); what the remaining steps
                    // would have shown is unexamined
                    rep.mismatches += 1;
                    keep |= rep.add_line(json!({"script": idx, "step": si, "prop": script["script"],
                        "op": st["op"], "key": "cut_short", "expected": "the step can be executed", "got": e.0,
                        "remaining_steps": steps.len() - si}).to_string());
                }
                bad = true;
                break;
            }
        };
        let op = st["op"].as_str().unwrap_or("?");
        let outcome = if res.get("panic").is_some() {
            "PANIC".to_string()
        } else if res["ok"].as_bool() == Some(true) {
            "ok".to_string()
        } else {
            res["err"].as_str().unwrap_or("err").to_string()
        };
        *rep.cover.entry(format!("{op}:{outcome}")).or_insert(0) += 1;
        let queries: Vec<Value> = C::take_queries();
        let mut mism: Vec<Value> = vec![];
        if res.get("panic").is_some() {
            mism.push(json!({"key": "panic", "got": res["panic"]}));
        }
        if let Some(exp) = st.get("expect") {
            for (k, e, g) in diff(exp, &res) {
                mism.push(json!({"key": k, "expected": e, "got": g}));
            }
            // the random source must be consumed exactly as scripted
            if st.get("rng").is_some() || st.get("rng32").is_some() {
                for k in ["rng_unused", "rng_overrun", "rng_mismatch"] {
                    if res[k].as_u64().unwrap_or(0) != 0 {
                        mism.push(json!({"key": k, "expected": 0, "got": res[k], "rng_req": res["rng_req"]}));
                    }
                }
            } else if res["rng_req"].as_array().map(|a| !a.is_empty()).unwrap_or(false) && script.get("oracle").is_some() {
                mism.push(json!({"key": "rng_unscripted", "expected": [], "got": res["rng_req"]}));
            }
            // every hash query must be one the model made (exact preimage)
            if script.get("oracle").is_some() {
                for q in queries.iter().filter(|q| q[3].as_bool() == Some(false)) {
                    mism.push(json!({"key": "oracle_miss", "tag": q[0], "got": q[1]}));
                }
            }
        }
        if !mism.is_empty() {
            bad = true;
            rep.mismatches += mism.len() as u64;
            for m in mism {
                let mut m = m;
                m["script"] = json!(idx);
                m["step"] = json!(si);
                m["op"] = json!(op);
                m["prop"] = script.get("script").cloned().unwrap_or(Value::Null);
                keep |= rep.add_line(m.to_string());
            }
        }
        if want_events {
            let qs: Vec<Value> = queries.iter().map(|q| json!([q[0], q[1], q[2]])).collect();
            let mut ev = st.clone();
            if let Value::Object(m) = &mut ev {
                m.remove("expect");
                m.insert("res".into(), res.clone());
                m.insert("queries".into(), json!(qs));
                m.insert("i".into(), json!(si));
            }
            events.push(ev);
        }
    }
    if bad && keep {
        rep.failed_scripts.push((format!("{}-{}", script.get("script").and_then(|x| x.as_str()).unwrap_or("s"), idx), script.clone()));
    }
    events
}

fn run_any(script: &Value, idx: u64, rep: &mut Report, want_events: bool) -> Vec<Value> {
    let suite = script.get("suite").and_then(|x| x.as_str()).unwrap_or("toy").to_string();
    with_suite!(suite.as_str(), run_script(script, idx, rep, want_events))
}

pub fn parse_line(line: &str) -> Option<Value> {
    let t = line.trim();
    if t.starts_with('"') {
        let s: String = serde_json::from_str(t).ok()?;
        serde_json::from_str(&s).ok()
    } else if t.starts_with('{') {
        serde_json::from_str(t).ok()
    } else {
        None
    }
}

pub fn strip_nulls(v: &mut Value) {
    match v {
        Value::Object(m) => {
            let keys: Vec<String> = m.iter().filter(|(_, x)| x.is_null()).map(|(k, _)| k.clone()).collect();
            for k in keys {
                m.remove(&k);
            }
            for (_, x) in m.iter_mut() {
                strip_nulls(x);
            }
        }
        Value::Array(a) => {
            for x in a.iter_mut() {
                strip_nulls(x);
            }
        }
        _ => {}
    }
}

pub fn main_fnv(b: &[u8]) -> u64 {
    fnv64(b) | 1
}

pub fn fnv64(b: &[u8]) -> u64 {
    let mut h: u64 = 0xcbf29ce484222325;
    for x in b {
        h ^= *x as u64;
        h = h.wrapping_mul(0x100000001b3);
    }
    h
}

/// The structure of a TLC-emitted script: who calls what on which objects with
/// which faults -- without the values (draws, oracle answers, expectations).
pub fn structure_of(script: &Value) -> Value {
    let mut steps = vec![];
    if let Some(a) = script.get("steps").and_then(|x| x.as_array()) {
        for st in a {
            let mut st = st.clone();
            if let Value::Object(m) = &mut st {
                m.remove("rng");
                m.remove("rng32");
                m.remove("expect");
            }
            steps.push(st);
        }
    }
    json!({"script": script.get("script").cloned().unwrap_or(Value::Null), "steps": steps})
}

/// fv run --suite S [--q Q] --seed N --events FILE [--idmap JSON] < structure scripts
/// code -> spec: executes value-free scripts with a seeded source and the real
/// hashes (toy: recording oracle) and writes one event per step.
fn cmd_run(args: &[String]) -> i32 {
    let suite = arg_val(args, "--suite").unwrap_or_else(|| "toy".into());
    let q: u64 = arg_val(args, "--q").and_then(|s| s.parse().ok()).unwrap_or(23099);
    let seed: u64 = arg_val(args, "--seed").and_then(|s| s.parse().ok()).unwrap_or(1);
    let idmap: Option<Value> = arg_val(args, "--idmap").and_then(|s| serde_json::from_str(&s).ok());
    let id_mode = arg_val(args, "--id-mode").unwrap_or_else(|| "plain".into());
    let out = arg_val(args, "--events").expect("--events");
    let mut f = std::io::BufWriter::new(std::fs::File::create(out).expect("events file"));
    let stdin = std::io::stdin();
    let mut idx = 0u64;
    let mut rep = Report::default();
    for line in stdin.lock().lines() {
        let line = match line {
            Ok(l) => l,
            Err(_) => break,
        };
        let mut script = match parse_line(&line) {
            Some(s) => s,
            None => continue,
        };
        idx += 1;
        script["suite"] = json!(suite);
        script["seed"] = json!(seed.wrapping_mul(1000003).wrapping_add(idx));
        if suite == "toy" {
            script["q"] = json!(q);
            script["p"] = json!(0);
            if let Value::Object(m) = &mut script {
                m.remove("oracle");
            }
        }
        if let Some(m) = &idmap {
            script["idmap"] = m.clone();
        }
        // a scenario that lets the library assign the default identifiers 1..n has its labels fixed by that
        let uses_default_ids = script["steps"].as_array().map(|a| a.iter().any(|st| st.get("custom").and_then(|x| x.as_bool()) == Some(false))).unwrap_or(false);
        script["id_mode"] = json!(if uses_default_ids { "plain" } else { id_mode.as_str() });
        script["lenient"] = json!(true);
        let evs = run_any(&script, idx, &mut rep, true);
        let _ = writeln!(f, "{}", json!({"op": "reset", "script": idx, "prop": script["script"], "suite": suite, "id_mode": id_mode}));
        for mut e in evs {
            strip_nulls(&mut e);
            let _ = writeln!(f, "{}", e);
        }
    }
    let _ = f.flush();
    println!("SUMMARY {}", json!({"scripts": rep.scripts, "steps": rep.steps, "script_errors": rep.script_errors,
        "cover": rep.cover, "errors": rep.lines.iter().take(5).collect::<Vec<_>>()}));
    0
}

fn lifecycle_one<C: Suite>(seed: u64, rounds: u64, f: &mut dyn Write) -> u64 {
    lifecycle::run::<C>(seed, rounds, f)
}

fn interop_one<C: Suite>(seed: u64, count: u64, f: &mut dyn Write) -> u64 {
    interop::run::<C>(seed, count, f)
}

fn codec_one<C: Suite>(seed: u64, heavy: bool, f: &mut dyn Write) -> (u64, u64) {
    codec::run::<C>(seed, heavy, f)
}

/// fv codec --suite S [--q Q] --seed N [--heavy] --events FILE
fn cmd_codec(args: &[String]) -> i32 {
    let suite = arg_val(args, "--suite").unwrap_or_else(|| "toy".into());
    let seed: u64 = arg_val(args, "--seed").and_then(|s| s.parse().ok()).unwrap_or(1);
    let heavy = args.iter().any(|a| a == "--heavy");
    codec::set_fuzz(args.iter().any(|a| a == "--fuzz"));
    let out = arg_val(args, "--events").expect("--events");
    if suite == "toy" {
        let q: u32 = arg_val(args, "--q").and_then(|s| s.parse().ok()).unwrap_or(251);
        toy::set_params(toy::ToyParams::for_q(q).expect("toy params"));
        toy::oracle_reset();
    }
    let mut f = std::io::BufWriter::new(std::fs::File::create(out).expect("events file"));
    let (n, acc) = with_suite!(suite.as_str(), codec_one(seed, heavy, &mut f));
    let _ = f.flush();
    println!("SUMMARY {}", json!({"events": n, "accepted": acc}));
    0
}

fn arg_val(args: &[String], name: &str) -> Option<String> {
    args.iter().position(|a| a == name).and_then(|i| args.get(i + 1).cloned())
}

fn cmd_replay(args: &[String]) -> i32 {
    let threads: usize = arg_val(args, "--threads").and_then(|s| s.parse().ok()).unwrap_or(8);
    let max_fail: usize = arg_val(args, "--max-fail").and_then(|s| s.parse().ok()).unwrap_or(5);
    let fail_dir = arg_val(args, "--fail-dir");
    let events_out = arg_val(args, "--events");
    let sample = arg_val(args, "--sample");
    let struct_out = arg_val(args, "--struct-out");
    let struct_max: usize = arg_val(args, "--struct-max").and_then(|s| s.parse().ok()).unwrap_or(20000);
    let structs: Arc<Mutex<(std::collections::HashSet<u64>, Vec<String>)>> = Arc::new(Mutex::new((Default::default(), vec![])));
    let want_struct = struct_out.is_some();
    let mut sample_done = false;
    let (tx, rx) = mpsc::channel::<(u64, String)>();
    let rx = Arc::new(Mutex::new(rx));
    let total = Arc::new(Mutex::new(Report::default()));
    let ev_file = events_out.map(|p| Arc::new(Mutex::new(std::io::BufWriter::new(std::fs::File::create(p).expect("events file")))));
    let mut hs = vec![];
    for _ in 0..threads {
        let rx = rx.clone();
        let total = total.clone();
        let ev_file = ev_file.clone();
        let structs = structs.clone();
        hs.push(std::thread::spawn(move || {
            let mut rep = Report::default();
            loop {
                let item = { rx.lock().unwrap().recv() };
                let (idx, line) = match item {
                    Ok(x) => x,
                    Err(_) => break,
                };
                match parse_line(&line) {
                    Some(script) => {
                        if want_struct {
                            let s = structure_of(&script);
                            let txt = s.to_string();
                            let h = fnv64(txt.as_bytes());
                            let mut g = structs.lock().unwrap();
                            if g.1.len() < struct_max && g.0.insert(h) {
                                g.1.push(txt);
                            }
                        }
                        let evs = run_any(&script, idx, &mut rep, ev_file.is_some());
                        if let Some(f) = &ev_file {
                            let mut f = f.lock().unwrap();
                            let _ = writeln!(f, "{}", json!({"op": "reset", "script": idx, "q": script["q"], "p": script["p"], "g": script["g"]}));
                            for e in evs {
                                let _ = writeln!(f, "{}", e);
                            }
                        }
                    }
                    None => {
                        // a line torn by concurrent writers of the emitting model checker: lost, not wrong
                        *rep.cover.entry("lost_lines".into()).or_insert(0) += 1;
                    }
                }
            }
            total.lock().unwrap().merge(rep, max_fail);
        }));
    }
    let stdin = std::io::stdin();
    let mut idx = 0u64;
    for line in stdin.lock().lines() {
        let line = match line {
            Ok(l) => l,
            Err(_) => break,
        };
        let t = line.trim_start();
        if !(t.starts_with("\"{") || t.starts_with('{')) {
            continue;
        }
        idx += 1;
        if !sample_done {
            if let Some(p) = &sample {
                if let Some(v) = parse_line(&line) {
                    let _ = std::fs::write(p, v.to_string());
                }
            }
            sample_done = true;
        }
        if tx.send((idx, line)).is_err() {
            break;
        }
    }
    drop(tx);
    for h in hs {
        let _ = h.join();
    }
    let rep = std::mem::take(&mut *total.lock().unwrap());
    let out = std::io::stdout();
    let mut out = out.lock();
    // at most eight lines per kind (op, key) of mismatch, so that thousands of one kind cannot crowd out another
    let mut per_kind: HashMap<(String, String), usize> = HashMap::new();
    for l in rep.lines.iter() {
        let kind = match serde_json::from_str::<Value>(l) {
            Ok(v) => (v["op"].as_str().unwrap_or("").to_string(), v["key"].as_str().unwrap_or("script_error").to_string()),
            Err(_) => ("".to_string(), "".to_string()),
        };
        let c = per_kind.entry(kind).or_insert(0);
        *c += 1;
        if *c <= 8 {
            let _ = writeln!(out, "MISMATCH {}", l);
        }
    }
    if let Some(d) = fail_dir {
        let _ = std::fs::create_dir_all(&d);
        for (name, s) in rep.failed_scripts.iter() {
            let _ = std::fs::write(format!("{d}/{name}.json"), serde_json::to_string(s).unwrap());
        }
    }
    if let Some(p) = struct_out {
        let g = structs.lock().unwrap();
        let _ = std::fs::write(p, g.1.join("\n") + "\n");
    }
    let failed: Vec<String> = rep.failed_scripts.iter().map(|(n, _)| n.clone()).collect();
    let _ = writeln!(
        out,
        "SUMMARY {}",
        json!({"scripts": rep.scripts, "steps": rep.steps, "mismatches": rep.mismatches,
               "script_errors": rep.script_errors, "cover": rep.cover, "failed": failed})
    );
    0
}

fn main() {
    // panics inside library calls are data; keep stderr quiet
    std::panic::set_hook(Box::new(|_| {}));
    let args: Vec<String> = std::env::args().collect();
    let code = match args.get(1).map(|s| s.as_str()) {
        Some("replay") => cmd_replay(&args[2..]),
        Some("record") => record::cmd_record(&args[2..]),
        Some("run") => cmd_run(&args[2..]),
        Some("codec") => cmd_codec(&args[2..]),
        Some("interop") => {
            let a = &args[2..];
            let suite = arg_val(a, "--suite").unwrap_or_else(|| "ed25519".into());
            let seed: u64 = arg_val(a, "--seed").and_then(|s| s.parse().ok()).unwrap_or(1);
            let count: u64 = arg_val(a, "--count").and_then(|s| s.parse().ok()).unwrap_or(50);
            let out = arg_val(a, "--events").expect("--events");
            let mut f = std::io::BufWriter::new(std::fs::File::create(out).expect("events file"));
            let k = if suite == "toy" {
                let q: u32 = arg_val(a, "--q").and_then(|s| s.parse().ok()).unwrap_or(251);
                toy::set_params(toy::ToyParams::for_q(q).expect("toy params"));
                interop::toy_all_u16(&mut f);
                1
            } else {
                // + the suite crate's wrappers next to the generic entry points
                with_suite!(suite.as_str(), interop_one(seed, count, &mut f)) + wrappers::run(suite.as_str(), seed, &mut f)
            };
            let _ = f.flush();
            println!("SUMMARY {}", json!({"events": k}));
            0
        }
        Some("lifecycle") => {
            let a = &args[2..];
            let suite = arg_val(a, "--suite").unwrap_or_else(|| "ed25519".into());
            let seed: u64 = arg_val(a, "--seed").and_then(|s| s.parse().ok()).unwrap_or(1);
            let rounds: u64 = arg_val(a, "--rounds").and_then(|s| s.parse().ok()).unwrap_or(5);
            let out = arg_val(a, "--events").expect("--events");
            let mut f = std::io::BufWriter::new(std::fs::File::create(out).expect("events file"));
            let k = with_suite!(suite.as_str(), lifecycle_one(seed, rounds, &mut f));
            let _ = f.flush();
            println!("SUMMARY {}", json!({"events": k}));
            0
        }
        Some("taproot") => {
            let a = &args[2..];
            let seed: u64 = arg_val(a, "--seed").and_then(|s| s.parse().ok()).unwrap_or(1);
            let n: u64 = arg_val(a, "--sessions").and_then(|s| s.parse().ok()).unwrap_or(200);
            let out = arg_val(a, "--events").expect("--events");
            let mut f = std::io::BufWriter::new(std::fs::File::create(out).expect("events file"));
            let k = taproot::run(seed, n, &mut f);
            let _ = f.flush();
            println!("SUMMARY {}", json!({"sessions": k}));
            0
        }
        _ => {
            eprintln!("usage: fv replay|record ...");
            2
        }
    };
    std::process::exit(code);
}
