//! fv — the implementation side of the FROST verification framework.
//!
//!   fv replay  [--threads N] [--fail-dir DIR] [--max-fail K]   < scripts
//!       spec -> code: run TLC-emitted scenario scripts on the real library and
//!       compare every step with the model's expectation.
//!   fv record  ...   code -> spec: run scenario generators, write traces.
//!
//! Exit code 0 always means "ran to completion" (verdicts are in the output);
//! 2 = the harness itself failed.

mod interp;
mod interp2;
mod rng;
mod suite;
mod toy;
mod record;

use std::collections::BTreeMap;
use std::io::{BufRead, Write};
use std::sync::{mpsc, Arc, Mutex};

use serde_json::{json, Value};

use interp::{diff, Interp};
use suite::Suite;

#[derive(Default)]
pub struct Report {
    pub scripts: u64,
    pub steps: u64,
    pub mismatches: u64,
    pub script_errors: u64,
    pub cover: BTreeMap<String, u64>,
    pub lines: Vec<String>,
    pub failed_scripts: Vec<(String, Value)>,
}

impl Report {
    fn merge(&mut self, o: Report, max_fail: usize) {
        self.scripts += o.scripts;
        self.steps += o.steps;
        self.mismatches += o.mismatches;
        self.script_errors += o.script_errors;
        for (k, v) in o.cover {
            *self.cover.entry(k).or_insert(0) += v;
        }
        self.lines.extend(o.lines);
        for f in o.failed_scripts {
            if self.failed_scripts.len() < max_fail {
                self.failed_scripts.push(f);
            }
        }
    }
}

/// Runs one script; returns the per-step events (for traces) and pushes
/// mismatches into the report.
pub fn run_script<C: Suite>(script: &Value, idx: u64, rep: &mut Report, want_events: bool) -> Vec<Value> {
    let mut events = vec![];
    let seed = script.get("seed").and_then(|x| x.as_u64()).unwrap_or(1);
    let mut it = Interp::<C>::new(seed);
    if C::IS_TOY {
        if let Err(e) = interp::toy_setup(script) {
            rep.script_errors += 1;
            rep.lines.push(json!({"script": idx, "script_error": e.0}).to_string());
            return events;
        }
    }
    if let Some(Value::Object(m)) = script.get("idmap") {
        for (k, v) in m {
            it.id_specs.insert(k.clone(), v.clone());
        }
    }
    rep.scripts += 1;
    // structural (Gen) prediction vs exact outcome: coincidence statistics
    if let (Some(pk), Some(g), Some(a)) = (script.get("probe").and_then(|x| x.as_str()),
        script.get("gen_accept").and_then(|x| x.as_bool()), script.get("accepted").and_then(|x| x.as_bool())) {
        *rep.cover.entry(format!("gen:{pk}:{}:{}", if g { "accept" } else { "reject" }, if a { "accepted" } else { "rejected" })).or_insert(0) += 1;
    }
    let mut bad = false;
    let empty = vec![];
    let steps = script.get("steps").and_then(|x| x.as_array()).unwrap_or(&empty);
    for (si, st) in steps.iter().enumerate() {
        rep.steps += 1;
        let res = match it.step(st) {
            Ok(r) => r,
            Err(e) => {
                // a missing object after an earlier deviation is its consequence, not a script defect
                if !bad {
                    rep.script_errors += 1;
                    rep.lines.push(json!({"script": idx, "step": si, "script_error": e.0}).to_string());
                }
                bad = true;
                break;
            }
        };
        let op = st["op"].as_str().unwrap_or("?");
        let outcome = if res.get("panic").is_some() {
            "PANIC".to_string()
        } else if res["ok"].as_bool() == Some(true) {
            "ok".to_string()
        } else {
            res["err"].as_str().unwrap_or("err").to_string()
        };
        *rep.cover.entry(format!("{op}:{outcome}")).or_insert(0) += 1;
        let queries = if C::IS_TOY { toy::oracle_take_log() } else { vec![] };
        let mut mism: Vec<Value> = vec![];
        if res.get("panic").is_some() {
            mism.push(json!({"key": "panic", "got": res["panic"]}));
        }
        if let Some(exp) = st.get("expect") {
            for (k, e, g) in diff(exp, &res) {
                mism.push(json!({"key": k, "expected": e, "got": g}));
            }
            // the random source must be consumed exactly as scripted
            if st.get("rng").is_some() || st.get("rng32").is_some() {
                for k in ["rng_unused", "rng_overrun", "rng_mismatch"] {
                    if res[k].as_u64().unwrap_or(0) != 0 {
                        mism.push(json!({"key": k, "expected": 0, "got": res[k], "rng_req": res["rng_req"]}));
                    }
                }
            } else if res["rng_req"].as_array().map(|a| !a.is_empty()).unwrap_or(false) && script.get("oracle").is_some() {
                mism.push(json!({"key": "rng_unscripted", "expected": [], "got": res["rng_req"]}));
            }
            // every hash query must be one the model made (exact preimage)
            if script.get("oracle").is_some() {
                for q in queries.iter().filter(|q| !q.hit) {
                    mism.push(json!({"key": "oracle_miss", "tag": q.tag, "got": interp::bytes_json(&q.pre)}));
                }
            }
        }
        if !mism.is_empty() {
            bad = true;
            rep.mismatches += mism.len() as u64;
            for m in mism {
                let mut m = m;
                m["script"] = json!(idx);
                m["step"] = json!(si);
                m["op"] = json!(op);
                m["prop"] = script.get("script").cloned().unwrap_or(Value::Null);
                rep.lines.push(m.to_string());
            }
        }
        if want_events {
            let qs: Vec<Value> =
                queries.iter().map(|q| json!([q.tag, interp::bytes_json(&q.pre), q.ans])).collect();
            let mut ev = st.clone();
            if let Value::Object(m) = &mut ev {
                m.remove("expect");
                m.insert("res".into(), res.clone());
                m.insert("queries".into(), json!(qs));
                m.insert("i".into(), json!(si));
            }
            events.push(ev);
        }
    }
    if bad {
        rep.failed_scripts.push((format!("{}-{}", script.get("script").and_then(|x| x.as_str()).unwrap_or("s"), idx), script.clone()));
    }
    events
}

fn run_any(script: &Value, idx: u64, rep: &mut Report, want_events: bool) -> Vec<Value> {
    let suite = script.get("suite").and_then(|x| x.as_str()).unwrap_or("toy").to_string();
    with_suite!(suite.as_str(), run_script(script, idx, rep, want_events))
}

pub fn parse_line(line: &str) -> Option<Value> {
    let t = line.trim();
    if t.starts_with('"') {
        let s: String = serde_json::from_str(t).ok()?;
        serde_json::from_str(&s).ok()
    } else if t.starts_with('{') {
        serde_json::from_str(t).ok()
    } else {
        None
    }
}

fn arg_val(args: &[String], name: &str) -> Option<String> {
    args.iter().position(|a| a == name).and_then(|i| args.get(i + 1).cloned())
}

fn cmd_replay(args: &[String]) -> i32 {
    let threads: usize = arg_val(args, "--threads").and_then(|s| s.parse().ok()).unwrap_or(8);
    let max_fail: usize = arg_val(args, "--max-fail").and_then(|s| s.parse().ok()).unwrap_or(5);
    let fail_dir = arg_val(args, "--fail-dir");
    let events_out = arg_val(args, "--events");
    let sample = arg_val(args, "--sample");
    let mut sample_done = false;
    let (tx, rx) = mpsc::channel::<(u64, String)>();
    let rx = Arc::new(Mutex::new(rx));
    let total = Arc::new(Mutex::new(Report::default()));
    let ev_file = events_out.map(|p| Arc::new(Mutex::new(std::io::BufWriter::new(std::fs::File::create(p).expect("events file")))));
    let mut hs = vec![];
    for _ in 0..threads {
        let rx = rx.clone();
        let total = total.clone();
        let ev_file = ev_file.clone();
        hs.push(std::thread::spawn(move || {
            let mut rep = Report::default();
            loop {
                let item = { rx.lock().unwrap().recv() };
                let (idx, line) = match item {
                    Ok(x) => x,
                    Err(_) => break,
                };
                match parse_line(&line) {
                    Some(script) => {
                        let evs = run_any(&script, idx, &mut rep, ev_file.is_some());
                        if let Some(f) = &ev_file {
                            let mut f = f.lock().unwrap();
                            let _ = writeln!(f, "{}", json!({"op": "reset", "script": idx, "q": script["q"], "p": script["p"], "g": script["g"]}));
                            for e in evs {
                                let _ = writeln!(f, "{}", e);
                            }
                        }
                    }
                    None => {
                        rep.script_errors += 1;
                        rep.lines.push(json!({"script": idx, "script_error": "unparsable line"}).to_string());
                    }
                }
                if rep.lines.len() > 2000 {
                    rep.lines.truncate(2000);
                }
            }
            total.lock().unwrap().merge(rep, max_fail);
        }));
    }
    let stdin = std::io::stdin();
    let mut idx = 0u64;
    for line in stdin.lock().lines() {
        let line = match line {
            Ok(l) => l,
            Err(_) => break,
        };
        let t = line.trim_start();
        if !(t.starts_with("\"{") || t.starts_with('{')) {
            continue;
        }
        idx += 1;
        if !sample_done {
            if let Some(p) = &sample {
                if let Some(v) = parse_line(&line) {
                    let _ = std::fs::write(p, v.to_string());
                }
            }
            sample_done = true;
        }
        if tx.send((idx, line)).is_err() {
            break;
        }
    }
    drop(tx);
    for h in hs {
        let _ = h.join();
    }
    let rep = std::mem::take(&mut *total.lock().unwrap());
    let out = std::io::stdout();
    let mut out = out.lock();
    for l in rep.lines.iter().take(200) {
        let _ = writeln!(out, "MISMATCH {}", l);
    }
    if let Some(d) = fail_dir {
        let _ = std::fs::create_dir_all(&d);
        for (name, s) in rep.failed_scripts.iter() {
            let _ = std::fs::write(format!("{d}/{name}.json"), serde_json::to_string(s).unwrap());
        }
    }
    let failed: Vec<String> = rep.failed_scripts.iter().map(|(n, _)| n.clone()).collect();
    let _ = writeln!(
        out,
        "SUMMARY {}",
        json!({"scripts": rep.scripts, "steps": rep.steps, "mismatches": rep.mismatches,
               "script_errors": rep.script_errors, "cover": rep.cover, "failed": failed})
    );
    0
}

fn main() {
    // panics inside library calls are data; keep stderr quiet
    std::panic::set_hook(Box::new(|_| {}));
    let args: Vec<String> = std::env::args().collect();
    let code = match args.get(1).map(|s| s.as_str()) {
        Some("replay") => cmd_replay(&args[2..]),
        Some("record") => record::cmd_record(&args[2..]),
        _ => {
            eprintln!("usage: fv replay|record ...");
            2
        }
    };
    std::process::exit(code);
}
