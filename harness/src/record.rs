//! code -> spec: scenario generators and trace recording (filled in below).
pub fn cmd_record(_args: &[String]) -> i32 {
    eprintln!("record: not built yet");
    2
}
