//! C02: single-signer interoperability with independent implementations
//! (ed25519-dalek for Ed25519, libsecp256k1 BIP-340 for the Taproot suite), and
//! the u16 -> identifier encoding.

use std::io::Write;

use frost_core::{Field, Group, Identifier, SigningKey, VerifyingKey};
use serde_json::json;

use crate::interp::bytes_json;
use crate::rng::SeedRng;
use crate::suite::Suite;

type F<C> = <<C as frost_core::Ciphersuite>::Group as Group>::Field;

pub fn run<C: Suite>(seed: u64, count: u64, f: &mut dyn Write) -> u64 {
    let mut rng = SeedRng::new(seed);
    let mut n = 0;
    let _ = writeln!(f, "{}", json!({"op": "reset", "suite": C::NAME, "seed": seed}));
    for k in 0..count {
        let msg = rng.bytes(((k * 37) % 300) as usize);
        // library signs, independent verifier checks
        let sk = SigningKey::<C>::new(&mut rng);
        let vk = VerifyingKey::<C>::from(&sk);
        let sig = sk.sign(&mut rng, &msg);
        let lib_ok = vk.verify(&msg, &sig).is_ok();
        let (vb, sb) = (vk.serialize().expect("vk"), sig.serialize().expect("sig"));
        let ext = C::ext_verify(&vb, &msg, &sb);
        let mut e = json!({"op": "interop", "suite": C::NAME, "dir": "lib_signs", "msg_len": msg.len(), "lib_ok": lib_ok});
        if let Some(x) = ext {
            e["ext_ok"] = json!(x);
        }
        // a signature with one bit flipped must be rejected by both
        let mut bad = sb.clone();
        let i = (rng.below(bad.len() as u64)) as usize;
        bad[i] ^= 1 << rng.below(8);
        e["lib_rejects_altered"] = json!(frost_core::Signature::<C>::deserialize(&bad).map(|s| vk.verify(&msg, &s).is_err()).unwrap_or(true));
        if let Some(x) = C::ext_verify(&vb, &msg, &bad) {
            e["ext_rejects_altered"] = json!(!x);
        }
        let _ = writeln!(f, "{}", e);
        n += 1;
        // independent signer signs, library verifies
        if let Some((evk, esig)) = C::ext_sign(&rng.bytes(32), &msg) {
            let r = VerifyingKey::<C>::deserialize(&evk)
                .and_then(|v| frost_core::Signature::<C>::deserialize(&esig).and_then(|s| v.verify(&msg, &s)));
            let _ = writeln!(f, "{}", json!({"op": "interop", "suite": C::NAME, "dir": "ext_signs", "msg_len": msg.len(), "lib_ok": r.is_ok()}));
            n += 1;
        }
    }
    // identifier encoding: the RFC's integer-to-scalar encoding of n, fixed width
    for v in [1u16, 2, 3, 127, 128, 255, 256, 257, 4095, 32767, 32768, 65534, 65535].iter().cloned().chain((0..40).map(|_| 1 + rng.below(65535) as u16)) {
        let id = Identifier::<C>::try_from(v);
        let mut e = json!({"op": "idenc", "suite": C::NAME, "n": v, "le": C::LE, "ok": id.is_ok()});
        if let Ok(i) = id {
            e["bytes"] = bytes_json(&i.serialize());
            e["len"] = json!(F::<C>::serialize(&F::<C>::zero()).as_ref().len());
        }
        let _ = writeln!(f, "{}", e);
        n += 1;
    }
    let e = json!({"op": "idenc", "suite": C::NAME, "n": 0, "le": C::LE, "ok": Identifier::<C>::try_from(0u16).is_ok()});
    let _ = writeln!(f, "{}", e);
    n + 1
}

/// every u16 on the toy suite: the value of Identifier::try_from(n), -1 for an error
pub fn toy_all_u16(f: &mut dyn Write) {
    use crate::toy::{self, Toy};
    let q = toy::params().q;
    let vals: Vec<i64> = (0..=65535u32)
        .map(|n| match Identifier::<Toy>::try_from(n as u16) {
            Ok(i) => i.to_scalar().0 as i64,
            Err(_) => -1,
        })
        .collect();
    let _ = writeln!(f, "{}", json!({"op": "idu16", "q": q, "vals": vals}));
}
