//! Second half of the interpreter: DKG, refresh, repair, re-randomisation,
//! batch verification, single-signer signing, persistence.

use std::collections::BTreeMap;

use frost_core as frost;
use frost_core::keys::dkg;
use frost_core::keys::refresh;
use frost_core::keys::repairable::{self, Delta, Sigma};
use frost_core::keys::{
    CoefficientCommitment, KeyPackage, PublicKeyPackage, SecretShare, SigningShare, VerifiableSecretSharingCommitment,
};
use frost_core::round1::{SigningCommitments, SigningNonces};
use frost_core::round2::SignatureShare;
use frost_core::{Field, Group, Identifier, Scalar, Signature, SigningKey, SigningPackage};
use frost_rerandomized::{RandomizedParams, Randomizer};
use serde_json::{json, Value};

use crate::interp::{bytes_json, bytes_of, hkey2, se, Interp, Obj, ScriptError, F, G, SR};
use crate::suite::Suite;

impl<C: Suite> Interp<C> {
    fn r1s(&self, h: &Value) -> SR<dkg::round1::SecretPackage<C>> {
        match self.get(h)? {
            Obj::R1s(x) => Ok(x.clone()),
            o => se(format!("{h} is {} not r1s", o.ty_name())),
        }
    }
    fn r1p(&self, h: &Value) -> SR<dkg::round1::Package<C>> {
        match self.get(h)? {
            Obj::R1p(x) => Ok(x.clone()),
            o => se(format!("{h} is {} not r1p", o.ty_name())),
        }
    }
    fn r2s(&self, h: &Value) -> SR<dkg::round2::SecretPackage<C>> {
        match self.get(h)? {
            Obj::R2s(x) => Ok(x.clone()),
            o => se(format!("{h} is {} not r2s", o.ty_name())),
        }
    }
    fn r2p(&self, h: &Value) -> SR<dkg::round2::Package<C>> {
        match self.get(h)? {
            Obj::R2p(x) => Ok(x.clone()),
            o => se(format!("{h} is {} not r2p", o.ty_name())),
        }
    }
    fn sc(&self, h: &Value) -> SR<Scalar<C>> {
        match self.get(h)? {
            Obj::Sc(x) => Ok(*x),
            o => se(format!("{h} is {} not scalar", o.ty_name())),
        }
    }
    fn rp(&self, h: &Value) -> SR<RandomizedParams<C>> {
        match self.get(h)? {
            Obj::Rp(x) => Ok(x.clone()),
            o => se(format!("{h} is {} not rp", o.ty_name())),
        }
    }
    fn seed_bytes(&self, v: &Value) -> SR<Vec<u8>> {
        if let Ok(k) = crate::interp::hkey(v) {
            if let Some(Obj::Bytes(b)) = self.env.get(&k) {
                return Ok(b.clone());
            }
        }
        bytes_of(v)
    }
    fn scalar_of_bytes(b: &[u8]) -> SR<Scalar<C>> {
        let ser: <F<C> as Field>::Serialization =
            b.try_into().ok().ok_or(ScriptError("scalar bytes length".into()))?;
        F::<C>::deserialize(&ser).map_err(|_| ScriptError("scalar bytes".into()))
    }
    fn r1_j(p: &dkg::round1::Package<C>) -> Value {
        json!({"commit": Self::commit_j(p.commitment()), "R": Self::ej(p.proof_of_knowledge().R()),
               "mu": Self::sj(p.proof_of_knowledge().z())})
    }

    pub(crate) fn exec2<R: rand_core::CryptoRng>(&mut self, op: &str, st: &Value, rng: &mut R) -> SR<Value> {
        let refresh_mode = st.get("refresh").and_then(|x| x.as_bool()).unwrap_or(false);
        match op {
            // ---------------------------------------------------- DKG
            "dkg1" => {
                let id = self.ident(&st["id"])?;
                let n = st["n"].as_u64().unwrap_or(0) as u16;
                let t = st["t"].as_u64().unwrap_or(0) as u16;
                let r = if refresh_mode {
                    refresh::refresh_dkg_part1(id, n, t, rng)
                } else {
                    dkg::part1(id, n, t, rng)
                };
                match r {
                    Ok((sec, pkg)) => {
                        let mut res = Self::r1_j(&pkg);
                        res["ok"] = json!(true);
                        res["coeffs"] = Value::Array(sec.coefficients().iter().map(Self::sj).collect());
                        res["sec_commit"] = Self::commit_j(sec.commitment());
                        res["min"] = json!(*sec.min_signers());
                        res["max"] = json!(*sec.max_signers());
                        res["id"] = self.idj(sec.identifier());
                        self.put(&st["out_sec"], Obj::R1s(sec))?;
                        self.put(&st["out_pkg"], Obj::R1p(pkg))?;
                        Ok(res)
                    }
                    Err(e) => Ok(self.err_j(&e)),
                }
            }
            "tamper_r1" => {
                let p = self.r1p(&st["src"])?;
                let what = st["what"].as_str().unwrap_or("");
                let mut comm: Vec<CoefficientCommitment<C>> = p.commitment().coefficients().to_vec();
                let (mut r, mut mu) = (*p.proof_of_knowledge().R(), *p.proof_of_knowledge().z());
                match what {
                    "R" => r = r + Self::gmul(&Self::lit(st.get("d"))?),
                    "mu" => mu = mu + Self::lit(st.get("d"))?,
                    "commit" => {
                        let k = st["k"].as_u64().unwrap_or(1) as usize - 1;
                        if k >= comm.len() {
                            return se("tamper_r1: k out of range");
                        }
                        comm[k] = CoefficientCommitment::new(comm[k].value() + Self::gmul(&Self::lit(st.get("d"))?));
                    }
                    "trunc" => {
                        comm.pop();
                    }
                    "extend" => comm.push(CoefficientCommitment::new(Self::gmul(&Self::lit(st.get("d"))?))),
                    "empty" => comm.clear(),
                    _ => return se(format!("tamper_r1: bad what {what}")),
                }
                let n = dkg::round1::Package::new(VerifiableSecretSharingCommitment::new(comm), Signature::new(r, mu));
                self.put(&st["out"], Obj::R1p(n))?;
                Ok(json!({"ok": true}))
            }
            "graft_proof" => {
                let c = self.r1p(&st["commit_of"])?;
                let p = self.r1p(&st["proof_of"])?;
                let n = dkg::round1::Package::new(c.commitment().clone(), *p.proof_of_knowledge());
                self.put(&st["out"], Obj::R1p(n))?;
                Ok(json!({"ok": true}))
            }
            "dkg2" => {
                let sec = self.r1s(&st["sec"])?;
                let r1 = self.slots(st.get("r1"), |s, h| s.r1p(h))?;
                let r = if refresh_mode { refresh::refresh_dkg_part2(sec, &r1) } else { dkg::part2(sec, &r1) };
                match r {
                    Ok((sec2, pkgs)) => {
                        let out: Vec<Value> = pkgs
                            .iter()
                            .map(|(i, p)| json!([self.idj(i), Self::sj(&p.signing_share().to_scalar())]))
                            .collect();
                        let res = json!({"ok": true, "own": Self::sj(&sec2.secret_share()), "r2": out,
                            "sec_commit": Self::commit_j(sec2.commitment()),
                            "min": *sec2.min_signers(), "max": *sec2.max_signers(), "id": self.idj(sec2.identifier())});
                        for (i, p) in pkgs {
                            let l = self.idj(&i);
                            self.env.insert(hkey2(&st["out_r2"], &l)?, Obj::R2p(p));
                        }
                        self.put(&st["out_sec"], Obj::R2s(sec2))?;
                        Ok(res)
                    }
                    Err(e) => Ok(self.err_j(&e)),
                }
            }
            "tamper_r2" => {
                let p = self.r2p(&st["src"])?;
                let s = p.signing_share().to_scalar() + Self::lit(st.get("d"))?;
                self.put(&st["out"], Obj::R2p(dkg::round2::Package::new(SigningShare::new(s))))?;
                Ok(json!({"ok": true}))
            }
            "zero_r2" => {
                self.r2p(&st["src"])?;
                self.put(&st["out"], Obj::R2p(dkg::round2::Package::new(SigningShare::new(F::<C>::zero()))))?;
                Ok(json!({"ok": true}))
            }
            "dkg3" => {
                let sec = self.r2s(&st["sec"])?;
                let r1 = self.slots(st.get("r1"), |s, h| s.r1p(h))?;
                let r2 = self.slots(st.get("r2"), |s, h| s.r2p(h))?;
                let r = if refresh_mode {
                    let old_pkp = self.pkp(&st["old_pkp"])?;
                    let old_kp = self.kp(&st["old_kp"])?;
                    refresh::refresh_dkg_shares(&sec, &r1, &r2, old_pkp, old_kp)
                } else {
                    dkg::part3(&sec, &r1, &r2)
                };
                match r {
                    Ok((kp, pkp)) => {
                        let res = json!({"ok": true, "kp": self.kp_j(&kp), "pkp": self.pkp_j(&pkp)});
                        self.put(&st["out_kp"], Obj::Kp(kp))?;
                        self.put(&st["out_pkp"], Obj::Pkp(pkp))?;
                        Ok(res)
                    }
                    Err(e) => Ok(self.err_j(&e)),
                }
            }
            // ---------------------------------------------------- dealer refresh
            "refresh_shares" => {
                let pkp = self.pkp(&st["pkp"])?;
                let ids = self.ids_list(st.get("ids"))?;
                match refresh::compute_refreshing_shares(pkp, &ids, rng) {
                    Ok((shares, npkp)) => {
                        let sh: Vec<Value> = shares
                            .iter()
                            .map(|s| json!([self.idj(s.identifier()), Self::sj(&s.signing_share().to_scalar())]))
                            .collect();
                        let res = json!({"ok": true, "shares": sh,
                            "commit": shares.first().map(|s| Self::commit_j(s.commitment())).unwrap_or(json!([])),
                            "pkp": self.pkp_j(&npkp)});
                        for s in shares {
                            let l = self.idj(s.identifier());
                            self.env.insert(hkey2(&st["out_ss"], &l)?, Obj::Ss(s));
                        }
                        self.put(&st["out_pkp"], Obj::Pkp(npkp))?;
                        Ok(res)
                    }
                    Err(e) => Ok(self.err_j(&e)),
                }
            }
            "refresh_share" => {
                let (ss, kp) = (self.ss(&st["ss"])?, self.kp(&st["kp"])?);
                match refresh::refresh_share(ss, &kp) {
                    Ok(nkp) => {
                        let mut res = self.kp_j(&nkp);
                        res["ok"] = json!(true);
                        self.put(&st["out"], Obj::Kp(nkp))?;
                        Ok(res)
                    }
                    Err(e) => Ok(self.err_j(&e)),
                }
            }
            // ---------------------------------------------------- repair
            "repair1" => {
                let helpers = self.ids_list(st.get("helpers"))?;
                let kp = self.kp(&st["kp"])?;
                let target = self.ident(&st["target"])?;
                match repairable::repair_share_part1(&helpers, &kp, rng, target) {
                    Ok(m) => {
                        let mut out = vec![];
                        let mut ids = vec![];
                        let mut sum = F::<C>::zero();
                        for (i, d) in m.iter() {
                            let v = Self::scalar_of_bytes(&d.serialize())?;
                            sum = sum + v;
                            ids.push(self.idj(i));
                            out.push(json!([self.idj(i), Self::sj(&v)]));
                            let l = self.idj(i);
                            self.env.insert(hkey2(&st["out"], &l)?, Obj::Sc(v));
                        }
                        ids.sort_by_key(|v| v.as_u64().unwrap_or(u64::MAX)); // by label: value order differs between id modes
                        Ok(json!({"ok": true, "deltas": out, "delta_ids": ids, "delta_sum": Self::sj(&sum)}))
                    }
                    Err(e) => Ok(self.err_j(&e)),
                }
            }
            "repair2" => {
                let hs = st["deltas"].as_array().cloned().unwrap_or_default();
                let mut ds = vec![];
                for h in hs.iter() {
                    let s = self.sc(h)?;
                    ds.push(Delta::<C>::deserialize(F::<C>::serialize(&s).as_ref()).map_err(|_| ScriptError("delta".into()))?);
                }
                let sigma = repairable::repair_share_part2(&ds);
                let v = Self::scalar_of_bytes(&sigma.serialize())?;
                self.put(&st["out"], Obj::Sc(v))?;
                Ok(json!({"ok": true, "sigma": Self::sj(&v)}))
            }
            "repair3" => {
                let hs = st["sigmas"].as_array().cloned().unwrap_or_default();
                let mut ss = vec![];
                for h in hs.iter() {
                    let s = self.sc(h)?;
                    ss.push(Sigma::<C>::deserialize(F::<C>::serialize(&s).as_ref()).map_err(|_| ScriptError("sigma".into()))?);
                }
                let id = self.ident(&st["id"])?;
                let pkp = self.pkp(&st["pkp"])?;
                match repairable::repair_share_part3(&ss, id, &pkp) {
                    Ok(kp) => {
                        let mut res = self.kp_j(&kp);
                        res["ok"] = json!(true);
                        self.put(&st["out"], Obj::Kp(kp))?;
                        Ok(res)
                    }
                    Err(e) => Ok(self.err_j(&e)),
                }
            }
            // ---------------------------------------------------- re-randomisation
            "rr_new" => {
                let vk = self.vk_of(&st["pkp"])?;
                let pkg = self.pkg(&st["pkg"])?;
                match RandomizedParams::<C>::new_from_commitments(&vk, pkg.signing_commitments(), rng) {
                    Ok((rp, seed)) => {
                        let res = json!({"ok": true, "seed": bytes_json(&seed),
                            "alpha": Self::sj(&Self::scalar_of_bytes(&rp.randomizer().serialize())?),
                            "alphaG": Self::ej(rp.randomizer_element()),
                            "vk2": Self::ej(&rp.randomized_verifying_key().to_element())});
                        self.put(&st["out"], Obj::Rp(rp))?;
                        if let Some(o) = st.get("out_seed") {
                            self.put(o, Obj::Bytes(seed))?;
                        }
                        Ok(res)
                    }
                    Err(e) => Ok(self.err_j(&e)),
                }
            }
            "rr_regen" => {
                let vk = self.vk_of(&st["pkp"])?;
                let pkg = self.pkg(&st["pkg"])?;
                let seed = self.seed_bytes(&st["seed"])?;
                match RandomizedParams::<C>::regenerate_from_seed_and_commitments(&vk, &seed, pkg.signing_commitments()) {
                    Ok(rp) => {
                        let res = json!({"ok": true,
                            "alpha": Self::sj(&Self::scalar_of_bytes(&rp.randomizer().serialize())?),
                            "alphaG": Self::ej(rp.randomizer_element()),
                            "vk2": Self::ej(&rp.randomized_verifying_key().to_element())});
                        self.put(&st["out"], Obj::Rp(rp))?;
                        Ok(res)
                    }
                    Err(e) => Ok(self.err_j(&e)),
                }
            }
            "rr_fixed" => {
                let vk = self.vk_of(&st["pkp"])?;
                let a = Self::lit(st.get("alpha"))?;
                let rp = RandomizedParams::<C>::from_randomizer(&vk, Randomizer::from_scalar(a));
                let res = json!({"ok": true, "alpha": Self::sj(&a), "alphaG": Self::ej(rp.randomizer_element()),
                    "vk2": Self::ej(&rp.randomized_verifying_key().to_element())});
                self.put(&st["out"], Obj::Rp(rp))?;
                Ok(res)
            }
            "tamper_seed" => {
                let mut b = self.seed_bytes(&st["src"])?;
                let d = st["d"].as_u64().unwrap_or(1) as u8;
                match st.get("how").and_then(|x| x.as_str()).unwrap_or("last") {
                    "last" => {
                        if let Some(l) = b.last_mut() {
                            *l = l.wrapping_add(d);
                        }
                    }
                    "append" => b.push(d),
                    "append0" => b.push(0),
                    "trunc" => {
                        b.pop();
                    }
                    "empty" => b.clear(),
                    other => return se(format!("tamper_seed: bad how {other}")),
                }
                self.put(&st["out"], Obj::Bytes(b))?;
                Ok(json!({"ok": true}))
            }
            "rr_sign" => {
                let (pkg, non, kp) = (self.pkg(&st["pkg"])?, self.non(&st["non"])?, self.kp(&st["kp"])?);
                let seed = self.seed_bytes(&st["seed"])?;
                match frost_rerandomized::sign_with_randomizer_seed(&pkg, &non, &kp, &seed) {
                    Ok(z) => {
                        let res = json!({"ok": true, "z": Self::sj(&Self::zs_scalar(&z))});
                        self.put(&st["out"], Obj::Zs(z))?;
                        Ok(res)
                    }
                    Err(e) => Ok(self.err_j(&e)),
                }
            }
            "rr_sign_fixed" => {
                let (pkg, non, kp) = (self.pkg(&st["pkg"])?, self.non(&st["non"])?, self.kp(&st["kp"])?);
                let rp = self.rp(&st["rp"])?;
                #[allow(deprecated)]
                let r = frost_rerandomized::sign(&pkg, &non, &kp, *rp.randomizer());
                match r {
                    Ok(z) => {
                        let res = json!({"ok": true, "z": Self::sj(&Self::zs_scalar(&z))});
                        self.put(&st["out"], Obj::Zs(z))?;
                        Ok(res)
                    }
                    Err(e) => Ok(self.err_j(&e)),
                }
            }
            "rr_pkp" => {
                // the randomized public key package as the coordinator derives it (for share verification)
                let pkp = self.pkp(&st["pkp"])?;
                let rp = self.rp(&st["rp"])?;
                let vs: BTreeMap<_, _> = pkp
                    .verifying_shares()
                    .iter()
                    .map(|(i, v)| (*i, frost::keys::VerifyingShare::new(v.to_element() + *rp.randomizer_element())))
                    .collect();
                let n = PublicKeyPackage::new(vs, *rp.randomized_verifying_key(), pkp.min_signers());
                self.put(&st["out"], Obj::Pkp(n))?;
                Ok(json!({"ok": true}))
            }
            // ---------------------------------------------------- single signer, batch
            "mk_sk" => {
                let s = Self::lit(st.get("key"))?;
                match SigningKey::<C>::from_scalar(s) {
                    Ok(sk) => {
                        let res = json!({"ok": true, "vk": Self::ej(&frost::VerifyingKey::from(&sk).to_element())});
                        self.put(&st["out"], Obj::Sk(sk))?;
                        Ok(res)
                    }
                    Err(e) => Ok(self.err_j(&e)),
                }
            }
            "new_sk" => {
                let sk = SigningKey::<C>::new(rng);
                let res = json!({"ok": true, "key": Self::sj(&sk.clone().to_scalar()),
                    "vk": Self::ej(&frost::VerifyingKey::from(&sk).to_element())});
                self.put(&st["out"], Obj::Sk(sk))?;
                Ok(res)
            }
            "single_sign" => {
                let sk = match self.get(&st["sk"])? {
                    Obj::Sk(x) => x.clone(),
                    o => return se(format!("single_sign on {}", o.ty_name())),
                };
                let msg = bytes_of(&st["msg"])?;
                let sig = sk.sign(&mut *rng, &msg);
                let res = json!({"ok": true, "R": Self::ej(sig.R()), "z": Self::sj(sig.z())});
                self.put(&st["out"], Obj::Sig(sig))?;
                Ok(res)
            }
            "tamper_sig" => {
                let s = self.sig(&st["src"])?;
                let d = Self::lit(st.get("d"))?;
                let n = match st["what"].as_str().unwrap_or("") {
                    "R" => Signature::<C>::new(*s.R() + Self::gmul(&d), *s.z()),
                    "z" => Signature::<C>::new(*s.R(), *s.z() + d),
                    w => return se(format!("tamper_sig: bad what {w}")),
                };
                self.put(&st["out"], Obj::Sig(n))?;
                Ok(json!({"ok": true}))
            }
            "batch" => {
                let items = st["items"].as_array().cloned().unwrap_or_default();
                let mut v = frost::batch::Verifier::<C>::new();
                let mut singles = vec![];
                let mut plains = vec![];
                for it in items.iter() {
                    let vk = self.vk_of(&it[0])?;
                    let sig = self.sig(&it[1])?;
                    let msg = bytes_of(&it[2])?;
                    plains.push(vk.verify(&msg, &sig).is_ok());
                    match frost::batch::Item::<C>::new(vk, sig, &msg) {
                        Ok(item) => {
                            singles.push(item.clone().verify_single().is_ok());
                            v.queue(item);
                        }
                        Err(e) => {
                            let mut r = self.err_j(&e);
                            r["stage"] = json!("item");
                            return Ok(r);
                        }
                    }
                }
                match v.verify(&mut *rng) {
                    Ok(()) => Ok(json!({"ok": true, "singles": singles, "plains": plains})),
                    Err(e) => {
                        let mut r = self.err_j(&e);
                        r["singles"] = json!(singles);
                        r["plains"] = json!(plains);
                        Ok(r)
                    }
                }
            }
            // ---------------------------------------------------- persistence
            "reload" => {
                let h = &st["h"];
                let json_form = st.get("form").and_then(|x| x.as_str()) == Some("json");
                let o = self.get(h)?.clone();
                macro_rules! rt {
                    ($x:expr, $ty:ty, $variant:path) => {{
                        let x = $x;
                        if json_form {
                            match serde_json::to_string(&x) {
                                Err(_) => (json!({"ok": false, "stage": "ser"}), None),
                                // the saved text is read back the three ways an application may: from a string,
                                // from a reader (a file), from an already parsed value
                                Ok(s) => match serde_json::from_str::<$ty>(&s) {
                                    Err(_) => (json!({"ok": false, "stage": "de"}), None),
                                    Ok(y) => {
                                        let via_reader = serde_json::from_reader::<_, $ty>(std::io::Cursor::new(s.as_bytes())).ok();
                                        let via_value = serde_json::from_str::<Value>(&s).ok().and_then(|v| serde_json::from_value::<$ty>(v).ok());
                                        match (via_reader, via_value) {
                                            (None, _) => (json!({"ok": false, "stage": "de:reader"}), None),
                                            (_, None) => (json!({"ok": false, "stage": "de:value"}), None),
                                            (Some(a), Some(b)) => (json!({"ok": true, "same": y == x && a == x && b == x}), Some($variant(y))),
                                        }
                                    }
                                },
                            }
                        } else {
                            match x.serialize() {
                                Err(_) => (json!({"ok": false, "stage": "ser"}), None),
                                Ok(b) => match <$ty>::deserialize(&b) {
                                    Err(_) => (json!({"ok": false, "stage": "de"}), None),
                                    Ok(y) => (json!({"ok": true, "same": y == x, "len": b.len()}), Some($variant(y))),
                                },
                            }
                        }
                    }};
                }
                // "parts": the object is taken apart with its accessors, every component goes through its own
                // byte-level serialize/deserialize, and the object is rebuilt with its public constructor
                if st.get("form").and_then(|x| x.as_str()) == Some("parts") {
                    if let Some(r) = Self::reload_parts(&o) {
                        let (res, n) = match r {
                            Err(stage) => (json!({"ok": false, "stage": stage}), None),
                            Ok(n) => (json!({"ok": true, "same": Self::obj_same(&o, &n)}), Some(n)),
                        };
                        if let Some(n) = n {
                            self.put(h, n)?;
                        }
                        return Ok(res);
                    }
                }
                let (res, n) = match o {
                    Obj::Ss(x) => rt!(x, SecretShare<C>, Obj::Ss),
                    Obj::Kp(x) => rt!(x, KeyPackage<C>, Obj::Kp),
                    Obj::Pkp(x) => rt!(x, PublicKeyPackage<C>, Obj::Pkp),
                    Obj::Non(x) => rt!(x, SigningNonces<C>, Obj::Non),
                    Obj::Comm(x) => rt!(x, SigningCommitments<C>, Obj::Comm),
                    Obj::Pkg(x) => rt!(x, SigningPackage<C>, Obj::Pkg),
                    Obj::R1s(x) => rt!(x, dkg::round1::SecretPackage<C>, Obj::R1s),
                    Obj::R1p(x) => rt!(x, dkg::round1::Package<C>, Obj::R1p),
                    Obj::R2s(x) => rt!(x, dkg::round2::SecretPackage<C>, Obj::R2s),
                    Obj::R2p(x) => rt!(x, dkg::round2::Package<C>, Obj::R2p),
                    Obj::Zs(x) => {
                        if json_form {
                            match serde_json::to_string(&x) {
                                Err(_) => (json!({"ok": false, "stage": "ser"}), None),
                                Ok(s) => match serde_json::from_str::<SignatureShare<C>>(&s) {
                                    Err(_) => (json!({"ok": false, "stage": "de"}), None),
                                    Ok(y) => (json!({"ok": true, "same": y == x}), Some(Obj::Zs(y))),
                                },
                            }
                        } else {
                            match SignatureShare::<C>::deserialize(&x.serialize()) {
                                Ok(y) => (json!({"ok": true, "same": y == x}), Some(Obj::Zs(y))),
                                Err(_) => (json!({"ok": false, "stage": "de"}), None),
                            }
                        }
                    }
                    Obj::Sig(x) => match x.serialize() {
                        Err(_) => (json!({"ok": false, "stage": "ser"}), None),
                        Ok(b) => match Signature::<C>::deserialize(&b) {
                            Ok(y) => (json!({"ok": true, "same": y == x}), Some(Obj::Sig(y))),
                            Err(_) => (json!({"ok": false, "stage": "de"}), None),
                        },
                    },
                    Obj::Sk(x) => match SigningKey::<C>::deserialize(&x.serialize()) {
                        Ok(y) => (json!({"ok": true, "same": y == x}), Some(Obj::Sk(y))),
                        Err(_) => (json!({"ok": false, "stage": "de"}), None),
                    },
                    Obj::Sc(x) => {
                        // a repair value (Delta / Sigma) in transit or at rest
                        let b = F::<C>::serialize(&x);
                        let r = if json_form {
                            Delta::<C>::deserialize(b.as_ref())
                                .ok()
                                .and_then(|d| serde_json::to_string(&d).ok())
                                .and_then(|s| serde_json::from_str::<Delta<C>>(&s).ok())
                                .map(|d| d.serialize())
                        } else {
                            Sigma::<C>::deserialize(b.as_ref()).ok().map(|d| d.serialize())
                        };
                        match r.and_then(|bytes| Self::scalar_of_bytes(&bytes).ok()) {
                            Some(y) => (json!({"ok": true, "same": y == x}), Some(Obj::Sc(y))),
                            None => (json!({"ok": false, "stage": "de"}), None),
                        }
                    }
                    o => return se(format!("reload of {}", o.ty_name())),
                };
                if let Some(n) = n {
                    self.put(h, n)?;
                }
                Ok(res)
            }
            _ => se(format!("unknown op {op}")),
        }
    }
}

impl<C: Suite> Interp<C> {
    fn obj_same(a: &Obj<C>, b: &Obj<C>) -> bool {
        match (a, b) {
            (Obj::Ss(x), Obj::Ss(y)) => x == y,
            (Obj::Kp(x), Obj::Kp(y)) => x == y,
            (Obj::Pkp(x), Obj::Pkp(y)) => x == y,
            (Obj::Non(x), Obj::Non(y)) => x == y,
            (Obj::Comm(x), Obj::Comm(y)) => x == y,
            (Obj::Pkg(x), Obj::Pkg(y)) => x == y,
            (Obj::R1p(x), Obj::R1p(y)) => x == y,
            (Obj::R2p(x), Obj::R2p(y)) => x == y,
            _ => false,
        }
    }

    /// None: this kind of object has no component-level route (the caller falls back to the whole-object one).
    fn reload_parts(o: &Obj<C>) -> Option<Result<Obj<C>, &'static str>> {
        use frost_core::keys::{VerifyingShare};
        use frost_core::round1::{Nonce, NonceCommitment};
        use frost_core::VerifyingKey;
        fn id_rt<C: Suite>(i: &Identifier<C>) -> Result<Identifier<C>, &'static str> {
            Identifier::<C>::deserialize(&i.serialize()).map_err(|_| "de:identifier")
        }
        fn share_rt<C: Suite>(x: &SigningShare<C>) -> Result<SigningShare<C>, &'static str> {
            SigningShare::<C>::deserialize(&x.serialize()).map_err(|_| "de:signing_share")
        }
        fn vs_rt<C: Suite>(x: &VerifyingShare<C>) -> Result<VerifyingShare<C>, &'static str> {
            VerifyingShare::<C>::deserialize(&x.serialize().map_err(|_| "ser")?).map_err(|_| "de:verifying_share")
        }
        fn vk_rt<C: Suite>(x: &VerifyingKey<C>) -> Result<VerifyingKey<C>, &'static str> {
            VerifyingKey::<C>::deserialize(&x.serialize().map_err(|_| "ser")?).map_err(|_| "de:verifying_key")
        }
        fn nc_rt<C: Suite>(x: &NonceCommitment<C>) -> Result<NonceCommitment<C>, &'static str> {
            NonceCommitment::<C>::deserialize(&x.serialize().map_err(|_| "ser")?).map_err(|_| "de:nonce_commitment")
        }
        fn comm_rt<C: Suite>(x: &SigningCommitments<C>) -> Result<SigningCommitments<C>, &'static str> {
            Ok(SigningCommitments::new(nc_rt(x.hiding())?, nc_rt(x.binding())?))
        }
        fn vss_rt<C: Suite>(x: &VerifiableSecretSharingCommitment<C>) -> Result<VerifiableSecretSharingCommitment<C>, &'static str> {
            let parts = x.serialize().map_err(|_| "ser")?;
            VerifiableSecretSharingCommitment::<C>::deserialize(parts).map_err(|_| "de:commitment")
        }
        Some(match o {
            Obj::Non(x) => (|| {
                let h = Nonce::<C>::deserialize(&x.hiding().serialize()).map_err(|_| "de:nonce")?;
                let b = Nonce::<C>::deserialize(&x.binding().serialize()).map_err(|_| "de:nonce")?;
                Ok(Obj::Non(SigningNonces::from_nonces(h, b)))
            })(),
            Obj::Comm(x) => comm_rt(x).map(Obj::Comm),
            Obj::Kp(x) => (|| {
                Ok(Obj::Kp(KeyPackage::new(
                    id_rt(x.identifier())?,
                    share_rt(x.signing_share())?,
                    vs_rt(x.verifying_share())?,
                    vk_rt(x.verifying_key())?,
                    *x.min_signers(),
                )))
            })(),
            Obj::Pkp(x) => (|| {
                let mut m = BTreeMap::new();
                for (i, v) in x.verifying_shares() {
                    m.insert(id_rt(i)?, vs_rt(v)?);
                }
                Ok(Obj::Pkp(PublicKeyPackage::new(m, vk_rt(x.verifying_key())?, x.min_signers())))
            })(),
            Obj::Ss(x) => (|| {
                Ok(Obj::Ss(SecretShare::new(id_rt(x.identifier())?, share_rt(x.signing_share())?, vss_rt(x.commitment())?)))
            })(),
            Obj::Pkg(x) => (|| {
                let mut m = BTreeMap::new();
                for (i, c) in x.signing_commitments() {
                    m.insert(id_rt(i)?, comm_rt(c)?);
                }
                Ok(Obj::Pkg(SigningPackage::new(m, x.message())))
            })(),
            Obj::R1p(x) => (|| {
                let pok = Signature::<C>::deserialize(&x.proof_of_knowledge().serialize().map_err(|_| "ser")?).map_err(|_| "de:proof")?;
                Ok(Obj::R1p(dkg::round1::Package::new(vss_rt(x.commitment())?, pok)))
            })(),
            Obj::R2p(x) => share_rt(x.signing_share()).map(|s| Obj::R2p(dkg::round2::Package::new(s))),
            _ => return None,
        })
    }
}

#[allow(dead_code)]
fn _unused<C: Suite>(_: Identifier<C>, _: G<C>) {}
