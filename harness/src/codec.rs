//! C12: wire encodings.  Generates decode/encode events for every wire type of a
//! suite; the laws are checked by TLC (spec/trace/TraceCodec.tla).
//!
//! Every input carries a construction tag; the specification maps the tag to the
//! verdict the property requires and applies the tag-free canonicity law to
//! everything that was accepted.

use std::collections::BTreeMap;
use std::io::Write;

use frost_core as frost;
use frost_core::keys::dkg;
use frost_core::keys::{
    CoefficientCommitment, IdentifierList, KeyPackage, PublicKeyPackage, SecretShare, SigningShare, VerifyingShare,
};
use frost_core::round1::{Nonce, NonceCommitment, SigningCommitments, SigningNonces};
use frost_core::round2::SignatureShare;
use frost_core::{Field, Group, Identifier, Signature, SigningKey, SigningPackage, VerifyingKey};
use serde_json::{json, Value};

use crate::interp::bytes_json;
use crate::rng::SeedRng;
use crate::suite::Suite;
use crate::toy;

type F<C> = <<C as frost::Ciphersuite>::Group as Group>::Field;
type G<C> = <C as frost::Ciphersuite>::Group;

thread_local! {
    static FUZZ: std::cell::Cell<bool> = std::cell::Cell::new(false);
}
pub fn set_fuzz(on: bool) {
    FUZZ.with(|f| f.set(on));
}
fn fuzz_enabled() -> bool {
    FUZZ.with(|f| f.get())
}

pub fn crc32(data: &[u8]) -> u32 {
    let mut crc = 0xffff_ffffu32;
    for b in data {
        crc ^= *b as u32;
        for _ in 0..8 {
            crc = if crc & 1 == 1 { (crc >> 1) ^ 0xedb8_8320 } else { crc >> 1 };
        }
    }
    !crc
}

pub const ALL_IDS: &[&str] = &[
    "FROST-ED25519-SHA512-v1",
    "FROST-ED448-SHAKE256-v1",
    "FROST-P256-SHA256-v1",
    "FROST-RISTRETTO255-SHA512-v1",
    "FROST-secp256k1-SHA256-v1",
    "FROST-secp256k1-SHA256-TR-v1",
    "FROST-TOY-ZQ-v1",
];

struct Out<'a> {
    f: &'a mut dyn Write,
    n: u64,
    accepted: u64,
}

impl<'a> Out<'a> {
    fn ev(&mut self, v: Value) {
        self.n += 1;
        if v["accepted"].as_bool() == Some(true) {
            self.accepted += 1;
        }
        let _ = writeln!(self.f, "{}", v);
    }
}

/// decoder: bytes -> None (rejected) | Some(re-encoding, or None if the value cannot be re-encoded)
type Dec<'a> = &'a dyn Fn(&[u8]) -> Option<Option<Vec<u8>>>;

fn feed(out: &mut Out, ty: &str, class: &str, tag: &str, input: &[u8], dec: Dec) {
    let r = std::panic::catch_unwind(std::panic::AssertUnwindSafe(|| dec(input)));
    let mut e = json!({"op": "dec", "ty": ty, "class": class, "form": "bin", "tag": tag, "input": bytes_json(input)});
    match r {
        Err(_) => {
            e["accepted"] = json!(false);
            e["panic"] = json!(true);
        }
        Ok(None) => e["accepted"] = json!(false),
        Ok(Some(re)) => {
            e["accepted"] = json!(true);
            if let Some(re) = re {
                e["reenc"] = bytes_json(&re);
            }
        }
    }
    out.ev(e);
}

fn add_one(bytes: &mut [u8], le: bool) {
    let n = bytes.len();
    for k in 0..n {
        let i = if le { k } else { n - 1 - k };
        if bytes[i] == 0xff {
            bytes[i] = 0;
        } else {
            bytes[i] += 1;
            return;
        }
    }
}

/// a + b as fixed-width integers in the given byte order; None on overflow
fn add_bytes(a: &[u8], b: &[u8], le: bool) -> Option<Vec<u8>> {
    if a.len() != b.len() {
        return None;
    }
    let n = a.len();
    let mut r = vec![0u8; n];
    let mut carry = 0u16;
    for k in 0..n {
        let i = if le { k } else { n - 1 - k };
        let t = a[i] as u16 + b[i] as u16 + carry;
        r[i] = t as u8;
        carry = t >> 8;
    }
    if carry != 0 {
        None
    } else {
        Some(r)
    }
}

fn order_bytes<C: Suite>() -> Vec<u8> {
    // (0 - 1) is order-1; add one in the encoding's byte order.  Ed448 scalars carry a
    // 57th byte that is always zero: the increment works on the first 56 bytes there.
    let m1 = F::<C>::zero() - F::<C>::one();
    let mut b = F::<C>::serialize(&m1).as_ref().to_vec();
    if C::NAME == "ed448" {
        let (lo, _) = b.split_at_mut(56);
        add_one(lo, true);
    } else {
        add_one(&mut b, C::LE || C::IS_TOY && false);
    }
    b
}

fn deviations(out: &mut Out, ty: &str, class: &str, valid: &[u8], dec: Dec, rng: &mut SeedRng, heavy: bool) {
    let n = valid.len();
    feed(out, ty, class, "valid", valid, dec);
    // every single-bit deviation
    for i in 0..n {
        for bit in 0..8 {
            let mut b = valid.to_vec();
            b[i] ^= 1 << bit;
            feed(out, ty, class, "bitflip", &b, dec);
        }
    }
    // every value of the first and of the last byte
    if n > 0 {
        for v in 0..=255u8 {
            let mut b = valid.to_vec();
            if b[0] != v {
                b[0] = v;
                feed(out, ty, class, "first", &b, dec);
            }
            let mut b = valid.to_vec();
            if b[n - 1] != v {
                b[n - 1] = v;
                feed(out, ty, class, "last", &b, dec);
            }
        }
    }
    // single-byte deviations elsewhere
    let reps = if heavy { 200 } else { 40 };
    for _ in 0..reps {
        if n == 0 {
            break;
        }
        let mut b = valid.to_vec();
        let i = rng.below(n as u64) as usize;
        b[i] = rng.below(256) as u8;
        if b != valid {
            feed(out, ty, class, "byteflip", &b, dec);
        }
    }
    // random strings of the right length
    for _ in 0..reps {
        let b = rng.bytes(n);
        feed(out, ty, class, "random", &b, dec);
    }
    // wrong lengths
    feed(out, ty, class, "len", &[], dec);
    if n > 0 {
        feed(out, ty, class, "len", &valid[..n - 1], dec);
    }
    let mut b = valid.to_vec();
    b.push(0);
    feed(out, ty, class, "len", &b, dec);
}

fn scalar_catalogue<C: Suite>(out: &mut Out, ty: &str, class: &str, dec: Dec, zero_rejected: bool) {
    let zero = F::<C>::serialize(&F::<C>::zero()).as_ref().to_vec();
    feed(out, ty, class, if zero_rejected { "zero" } else { "valid" }, &zero, dec);
    let ord = order_bytes::<C>();
    feed(out, ty, class, "ge_order", &ord, dec);
    let mut o1 = ord.clone();
    if C::NAME == "ed448" {
        let (lo, _) = o1.split_at_mut(56);
        add_one(lo, true);
    } else {
        add_one(&mut o1, C::LE);
    }
    feed(out, ty, class, "ge_order", &o1, dec);
    let ff = vec![0xffu8; ord.len()];
    feed(out, ty, class, "ge_order", &ff, dec);
    // order - 1 is the largest valid scalar
    let m1 = F::<C>::serialize(&(F::<C>::zero() - F::<C>::one())).as_ref().to_vec();
    feed(out, ty, class, "valid", &m1, dec);
}

fn element_catalogue<C: Suite>(out: &mut Out, ty: &str, class: &str, dec: Dec, valid: &[u8]) {
    let n = valid.len();
    // the identity element in the suite's own encoding
    let ident: Vec<Vec<u8>> = match C::NAME {
        "ed25519" | "ed448" => {
            let mut b = vec![0u8; n];
            b[0] = 1;
            vec![b]
        }
        "ristretto255" => vec![vec![0u8; n]],
        "toy" => vec![vec![0, 1]],
        _ => vec![vec![0u8; n]], // SEC1 suites: the padded identity of the library
    };
    for b in ident {
        feed(out, ty, class, "identity", &b, dec);
    }
    if C::NAME == "ed25519" {
        // the eight small-order points and mixed-order points (valid point + torsion)
        use curve25519_dalek::constants::EIGHT_TORSION;
        use curve25519_dalek::edwards::CompressedEdwardsY;
        for t in EIGHT_TORSION.iter().skip(1) {
            feed(out, ty, class, "small_order", t.compress().as_bytes(), dec);
        }
        if let Ok(c) = CompressedEdwardsY::from_slice(valid) {
            if let Some(p) = c.decompress() {
                for t in EIGHT_TORSION.iter().skip(1) {
                    feed(out, ty, class, "mixed_order", (p + t).compress().as_bytes(), dec);
                }
            }
        }
        // non-canonical encodings of field elements (y >= p): y = p + k for small k, both signs
        for k in 0..19u8 {
            let mut b = [0xffu8; 32];
            b[0] = 0xed + k;
            b[31] = 0x7f;
            feed(out, ty, class, "noncanon", &b, dec);
            b[31] = 0xff;
            feed(out, ty, class, "noncanon", &b, dec);
        }
    }
    if C::NAME == "ed448" {
        // order-2 point (0, -1), order-4 points (x = +-1, y = 0), and a point of order 2 * q class from the suite's tests
        let mut b = vec![0xffu8; 57];
        b[0] = 0xfe;
        b[28] = 0xfe;
        b[56] = 0;
        feed(out, ty, class, "small_order", &b, dec);
        let z = vec![0u8; 57];
        feed(out, ty, class, "small_order", &z, dec);
        let mut z2 = vec![0u8; 57];
        z2[56] = 0x80;
        feed(out, ty, class, "small_order", &z2, dec);
        // y >= p
        let mut nc = vec![0xffu8; 57];
        nc[56] = 0;
        feed(out, ty, class, "noncanon", &nc, dec);
    }
    if C::NAME == "toy" {
        // non-members of the order-q subgroup and values >= p are covered by the exhaustive enumeration
    }
}

/// Binary + JSON round trip and header checks of one container value.
/// positions of `needle` in `hay`
fn occurrences(hay: &[u8], needle: &[u8]) -> Vec<usize> {
    if needle.is_empty() || hay.len() < needle.len() {
        return vec![];
    }
    (0..=hay.len() - needle.len()).filter(|&i| &hay[i..i + needle.len()] == needle).collect()
}

/// `embedded`: encodings of scalars known to be fields of `v`; `bad_scalars`: same-length strings that
/// are not canonical scalars (order, order+1, ff..ff).  Each occurrence is replaced by each bad string.
#[allow(clippy::too_many_arguments)]
fn container<T>(out: &mut Out, ty: &str, v: &T, ser: &dyn Fn(&T) -> Option<Vec<u8>>, de: &dyn Fn(&[u8]) -> Option<T>, has_header: bool, my_id: &str,
                embedded: &[Vec<u8>], bad_scalars: &[Vec<u8>], fixed: &[Vec<u8>])
where
    T: PartialEq + serde::Serialize + for<'de> serde::Deserialize<'de>,
{
    let bytes = match ser(v) {
        Some(b) => b,
        None => {
            out.ev(json!({"op": "dec", "ty": ty, "class": "container", "form": "bin", "tag": "valid", "input": [], "accepted": false, "note": "unserialisable"}));
            return;
        }
    };
    let try_de = |b: &[u8]| std::panic::catch_unwind(std::panic::AssertUnwindSafe(|| de(b))).unwrap_or(None);
    let mut emit = |out: &mut Out, tag: &str, input: &[u8]| {
        let r = try_de(input);
        let mut e = json!({"op": "dec", "ty": ty, "class": "container", "form": "bin", "tag": tag, "input": bytes_json(input),
                           "accepted": r.is_some()});
        if let Some(x) = r {
            e["same"] = json!(&x == v);
            // a second byte string for the same value
            e["alias"] = json!(&x == v && input != bytes.as_slice());
            if let Some(re) = ser(&x) {
                e["reenc"] = bytes_json(&re);
            }
        }
        out.ev(e);
    };
    emit(out, "valid", &bytes);
    // fixed-size fields (scalars, elements, signatures) travel length-prefixed: one byte shorter (the prefix
    // adjusted), or with the prefix alone lowered, must not decode
    for fx in fixed.iter().chain(embedded.iter()) {
        for at in occurrences(&bytes, fx) {
            // (16 bytes and more: a shorter pattern preceded by its own length is as likely a vector count)
            if at >= 1 && bytes[at - 1] as usize == fx.len() && fx.len() >= 16 {
                for cut in [1usize, 2, fx.len() / 2, fx.len() - 1] {
                    if cut == 0 || cut >= fx.len() {
                        continue;
                    }
                    let mut b = bytes[..at - 1].to_vec();
                    b.push((fx.len() - cut) as u8);
                    b.extend_from_slice(&bytes[at..at + fx.len() - cut]);
                    b.extend_from_slice(&bytes[at + fx.len()..]);
                    emit(out, "short_field", &b);
                }
            }
        }
    }
    for e in embedded {
        for at in occurrences(&bytes, e) {
            for bad in bad_scalars {
                let mut b = bytes.clone();
                b[at..at + e.len()].copy_from_slice(bad);
                emit(out, "ge_order", &b);
            }
        }
    }
    if has_header && bytes.len() >= 5 {
        for ver in 1..=255u8 {
            let mut b = bytes.clone();
            b[0] = ver;
            emit(out, "version", &b);
        }
        for i in 1..5 {
            for bit in 0..8 {
                let mut b = bytes.clone();
                b[i] ^= 1 << bit;
                emit(out, "suite_id", &b);
            }
        }
        for id in ALL_IDS {
            if *id != my_id {
                let mut b = bytes.clone();
                b[1..5].copy_from_slice(&crc32(id.as_bytes()).to_be_bytes());
                emit(out, "suite_id", &b);
            }
        }
    }
    // structure-aware mutations (C14): each position x boundary values, insertions, deletions,
    // inflated length prefixes; the only law for these is "returns a value or an error"
    if fuzz_enabled() {
        for i in 0..bytes.len() {
            for v in [0x00u8, 0x01, 0x7f, 0x80, 0xff, bytes[i] ^ 1, bytes[i].wrapping_add(1)] {
                if v != bytes[i] {
                    let mut b = bytes.clone();
                    b[i] = v;
                    emit(out, "mutated", &b);
                }
            }
            let mut b = bytes.clone();
            b.remove(i);
            emit(out, "mutated", &b);
            let mut b = bytes.clone();
            b.insert(i, 0xff);
            emit(out, "mutated", &b);
            // a varint of 2^32-1 / 2^64-1 spliced in where a count or length may sit
            let mut b = bytes[..i].to_vec();
            b.extend_from_slice(&[0xff, 0xff, 0xff, 0xff, 0x0f]);
            b.extend_from_slice(&bytes[i..]);
            emit(out, "mutated", &b);
            let mut b = bytes[..i].to_vec();
            b.extend_from_slice(&[0xff; 9]);
            b.push(0x01);
            b.extend_from_slice(&bytes[i + 1..]);
            emit(out, "mutated", &b);
        }
        let mut x = crate::main_fnv(bytes.as_slice());
        for k in 0..64usize {
            let len = (k * 7) % (bytes.len() + 9);
            let mut b = vec![0u8; len];
            for y in b.iter_mut() {
                x ^= x << 13;
                x ^= x >> 7;
                x ^= x << 17;
                *y = (x >> 24) as u8;
            }
            if len >= 5 && k % 2 == 0 {
                b[..5].copy_from_slice(&bytes[..5]); // keep a valid header so that the body is reached
            }
            emit(out, "mutated", &b);
        }
    }
    // truncations never decode to something that re-encodes to the original
    for cut in 0..bytes.len() {
        emit(out, "truncated", &bytes[..cut]);
    }
    // JSON
    let js = serde_json::to_string(v).ok();
    let mut e = json!({"op": "dec", "ty": ty, "class": "container", "form": "json", "tag": "valid"});
    match &js {
        None => {
            e["accepted"] = json!(false);
        }
        Some(s) => {
            e["text_len"] = json!(s.len());
            match serde_json::from_str::<T>(s) {
                Ok(x) => {
                    e["accepted"] = json!(true);
                    e["same"] = json!(&x == v);
                    e["reenc_same"] = json!(serde_json::to_string(&x).ok().as_deref() == Some(s.as_str()));
                }
                Err(_) => e["accepted"] = json!(false),
            }
        }
    }
    out.ev(e);
    // the same text through the decoder's other entry points: a parsed Value, a reader (neither can lend
    // borrowed strings), and a text whose strings are written with \u escapes
    if let Some(s) = &js {
        let mut route = |out: &mut Out, name: &str, r: Option<T>| {
            out.ev(json!({"op": "dec", "ty": ty, "class": "container", "form": "json", "tag": "valid", "route": name,
                          "accepted": r.is_some(), "same": r.map(|x| &x == v).unwrap_or(false)}));
        };
        let val: Option<Value> = serde_json::from_str(s).ok();
        route(out, "value", val.and_then(|x| serde_json::from_value::<T>(x).ok()));
        route(out, "reader", serde_json::from_reader::<_, T>(std::io::Cursor::new(s.as_bytes())).ok());
        // escape the first character of every string literal: "abc" -> "\u0061bc"
        let mut esc = String::with_capacity(s.len() + 64);
        let mut prev_quote_opens = true;
        let cs: Vec<char> = s.chars().collect();
        let mut i = 0;
        while i < cs.len() {
            let c = cs[i];
            esc.push(c);
            if c == '"' {
                if prev_quote_opens && i + 1 < cs.len() && cs[i + 1] != '"' && cs[i + 1] != '\\' {
                    esc.push_str(&format!("\\u{:04x}", cs[i + 1] as u32));
                    i += 1;
                }
                prev_quote_opens = !prev_quote_opens;
            }
            i += 1;
        }
        route(out, "escaped", serde_json::from_str::<T>(&esc).ok());
        for fx in fixed.iter().chain(embedded.iter()) {
            let h = crate::suite::hex(fx);
            if h.len() >= 4 && s.contains(&h) {
                for cut in [2usize, 4, h.len() / 2 / 2 * 2] {
                    if cut == 0 || cut >= h.len() {
                        continue;
                    }
                    let t = s.replacen(&h, &h[..h.len() - cut], 1);
                    out.ev(json!({"op": "dec", "ty": ty, "class": "container", "form": "json", "tag": "short_field",
                                  "accepted": serde_json::from_str::<T>(&t).is_ok()}));
                }
            }
        }
        for e in embedded {
            let h = crate::suite::hex(e);
            if s.contains(&h) {
                for bad in bad_scalars {
                    let t = s.replacen(&h, &crate::suite::hex(bad), 1);
                    out.ev(json!({"op": "dec", "ty": ty, "class": "container", "form": "json", "tag": "ge_order",
                                  "accepted": serde_json::from_str::<T>(&t).is_ok()}));
                }
            }
        }
    }
    if let (Some(s), true) = (&js, has_header) {
        let bad_ver = s.replacen("\"version\":0", "\"version\":1", 1);
        if &bad_ver != s {
            out.ev(json!({"op": "dec", "ty": ty, "class": "container", "form": "json", "tag": "version",
                          "accepted": serde_json::from_str::<T>(&bad_ver).is_ok()}));
        }
        for id in ALL_IDS {
            if *id != my_id {
                let bad = s.replacen(my_id, id, 1);
                if &bad != s {
                    out.ev(json!({"op": "dec", "ty": ty, "class": "container", "form": "json", "tag": "suite_id",
                                  "accepted": serde_json::from_str::<T>(&bad).is_ok()}));
                }
            }
        }
    }
}

pub fn run<C: Suite>(seed: u64, heavy: bool, f: &mut dyn Write) -> (u64, u64) {
    let mut out = Out { f, n: 0, accepted: 0 };
    let mut rng = SeedRng::new(seed);
    let _ = writeln!(out.f, "{}", json!({"op": "reset", "suite": C::NAME, "seed": seed}));

    // ---- material from an honest protocol run
    let (shares, pkp) = frost::keys::generate_with_dealer::<C, _>(3, 2, IdentifierList::Default, &mut rng).expect("keygen");
    let kps: BTreeMap<Identifier<C>, KeyPackage<C>> =
        shares.iter().map(|(i, s)| (*i, KeyPackage::try_from(s.clone()).expect("kp"))).collect();
    let ids: Vec<Identifier<C>> = kps.keys().cloned().collect();
    let mut nonces = BTreeMap::new();
    let mut comms = BTreeMap::new();
    for i in ids.iter().take(2) {
        let (n, c) = frost::round1::commit(kps[i].signing_share(), &mut rng);
        nonces.insert(*i, n);
        comms.insert(*i, c);
    }
    let msg = b"wire".to_vec();
    let pkg = SigningPackage::new(comms.clone(), &msg);
    let mut zs = BTreeMap::new();
    for i in ids.iter().take(2) {
        zs.insert(*i, frost::round2::sign(&pkg, &nonces[i], &kps[i]).expect("sign"));
    }
    let sig = frost::aggregate(&pkg, &zs, &pkp).expect("aggregate");
    let id1 = ids[0];
    let kp1 = kps[&id1].clone();
    let ss1 = shares[&id1].clone();
    let (r1s, r1p) = dkg::part1::<C, _>(id1, 3, 2, &mut rng).expect("part1");
    let mut r1map = BTreeMap::new();
    let mut r1secs = BTreeMap::new();
    r1secs.insert(id1, r1s.clone());
    for i in ids.iter().skip(1) {
        let (s, p) = dkg::part1::<C, _>(*i, 3, 2, &mut rng).expect("part1");
        r1map.insert(*i, p);
        r1secs.insert(*i, s);
    }
    let (r2s, r2ps) = dkg::part2(r1s.clone(), &r1map).expect("part2");
    let r2p = r2ps.values().next().cloned().expect("r2p");
    let sk = SigningKey::<C>::new(&mut rng);

    // ---- fixed-size primitives
    let scalar_valid = kp1.signing_share().serialize();
    let elem_valid = kp1.verifying_share().serialize().expect("vs");
    let ty = |s: &str| s.to_string();

    let d_share: Dec = &|b| SigningShare::<C>::deserialize(b).ok().map(|v| Some(v.serialize()));
    deviations(&mut out, &ty("SigningShare"), "scalar", &scalar_valid, d_share, &mut rng, heavy);
    scalar_catalogue::<C>(&mut out, "SigningShare", "scalar", d_share, false);

    let d_nonce: Dec = &|b| Nonce::<C>::deserialize(b).ok().map(|v| Some(v.serialize()));
    deviations(&mut out, "Nonce", "scalar", &nonces[&id1].hiding().serialize(), d_nonce, &mut rng, false);
    scalar_catalogue::<C>(&mut out, "Nonce", "scalar", d_nonce, false);

    let d_zs: Dec = &|b| SignatureShare::<C>::deserialize(b).ok().map(|v| Some(v.serialize()));
    deviations(&mut out, "SignatureShare", "scalar", &zs[&id1].serialize(), d_zs, &mut rng, false);
    scalar_catalogue::<C>(&mut out, "SignatureShare", "scalar", d_zs, false);

    let d_delta: Dec = &|b| frost::keys::repairable::Delta::<C>::deserialize(b).ok().map(|v| Some(v.serialize()));
    deviations(&mut out, "Delta", "scalar", &scalar_valid, d_delta, &mut rng, false);
    scalar_catalogue::<C>(&mut out, "Delta", "scalar", d_delta, false);
    let d_sigma: Dec = &|b| frost::keys::repairable::Sigma::<C>::deserialize(b).ok().map(|v| Some(v.serialize()));
    deviations(&mut out, "Sigma", "scalar", &scalar_valid, d_sigma, &mut rng, false);
    scalar_catalogue::<C>(&mut out, "Sigma", "scalar", d_sigma, false);
    let d_rand: Dec = &|b| frost_rerandomized::Randomizer::<C>::deserialize(b).ok().map(|v| Some(v.serialize()));
    deviations(&mut out, "Randomizer", "scalar", &scalar_valid, d_rand, &mut rng, false);
    scalar_catalogue::<C>(&mut out, "Randomizer", "scalar", d_rand, false);

    let d_id: Dec = &|b| Identifier::<C>::deserialize(b).ok().map(|v| Some(v.serialize()));
    deviations(&mut out, "Identifier", "id", &id1.serialize(), d_id, &mut rng, heavy);
    scalar_catalogue::<C>(&mut out, "Identifier", "id", d_id, true);
    if !C::IS_TOY {
        for s in ["a", "b", "participant-7"] {
            if let Ok(i) = Identifier::<C>::derive(s.as_bytes()) {
                feed(&mut out, "Identifier", "id", "valid", &i.serialize(), d_id);
            }
        }
        for n in [1u16, 2, 255, 256, 65535] {
            if let Ok(i) = Identifier::<C>::try_from(n) {
                feed(&mut out, "Identifier", "id", "valid", &i.serialize(), d_id);
            }
        }
    }

    let d_sk: Dec = &|b| SigningKey::<C>::deserialize(b).ok().map(|v| Some(v.serialize()));
    deviations(&mut out, "SigningKey", "sk", &sk.serialize(), d_sk, &mut rng, false);
    scalar_catalogue::<C>(&mut out, "SigningKey", "sk", d_sk, true);

    let d_vk: Dec = &|b| VerifyingKey::<C>::deserialize(b).ok().map(|v| v.serialize().ok());
    deviations(&mut out, "VerifyingKey", "elem", &pkp.verifying_key().serialize().expect("vk"), d_vk, &mut rng, heavy);
    element_catalogue::<C>(&mut out, "VerifyingKey", "elem", d_vk, &elem_valid);
    let d_vs: Dec = &|b| VerifyingShare::<C>::deserialize(b).ok().map(|v| v.serialize().ok());
    deviations(&mut out, "VerifyingShare", "elem", &elem_valid, d_vs, &mut rng, false);
    element_catalogue::<C>(&mut out, "VerifyingShare", "elem", d_vs, &elem_valid);
    let d_nc: Dec = &|b| NonceCommitment::<C>::deserialize(b).ok().map(|v| v.serialize().ok());
    deviations(&mut out, "NonceCommitment", "elem", &comms[&id1].hiding().serialize().expect("nc"), d_nc, &mut rng, false);
    element_catalogue::<C>(&mut out, "NonceCommitment", "elem", d_nc, &elem_valid);
    let d_cc: Dec = &|b| CoefficientCommitment::<C>::deserialize(b).ok().map(|v| v.serialize().ok());
    deviations(&mut out, "CoefficientCommitment", "elem", &ss1.commitment().serialize().expect("cc")[1], d_cc, &mut rng, false);
    element_catalogue::<C>(&mut out, "CoefficientCommitment", "elem", d_cc, &elem_valid);

    let d_sig: Dec = &|b| Signature::<C>::deserialize(b).ok().map(|v| v.serialize().ok());
    let sig_bytes = sig.serialize().expect("sig");
    deviations(&mut out, "Signature", "sig", &sig_bytes, d_sig, &mut rng, heavy);
    // a scalar half that is not a canonical scalar makes the signature undecodable (the element half is
    // whatever precedes it: a full element, or the x coordinate alone in the Taproot suite)
    let bad_scalars: Vec<Vec<u8>> = {
        let ord = order_bytes::<C>();
        let mut o1 = ord.clone();
        if C::NAME == "ed448" {
            let (lo, _) = o1.split_at_mut(56);
            add_one(lo, true);
        } else {
            add_one(&mut o1, C::LE);
        }
        vec![ord.clone(), o1, vec![0xffu8; ord.len()]]
    };
    if sig_bytes.len() > scalar_valid.len() {
        let el = sig_bytes.len() - scalar_valid.len();
        for bad in &bad_scalars {
            let mut b = sig_bytes.clone();
            b[el..].copy_from_slice(bad);
            feed(&mut out, "Signature", "sig", "ge_order", &b, d_sig);
        }
        // z + order, when that still fits the encoding: the same residue written differently
        let z = &sig_bytes[el..];
        if let Some(zn) = add_bytes(z, &bad_scalars[0], C::LE) {
            let mut b = sig_bytes.clone();
            b[el..].copy_from_slice(&zn);
            feed(&mut out, "Signature", "sig", "ge_order", &b, d_sig);
        }
    }

    // ---- containers: binary and JSON round trip, header checks
    let id = C::ID;
    let bs = &bad_scalars;
    let no: Vec<Vec<u8>> = vec![];
    let non_sc = vec![nonces[&id1].hiding().serialize(), nonces[&id1].binding().serialize()];
    let share_sc = vec![scalar_valid.clone()];
    let pok = r1p.proof_of_knowledge().serialize().expect("pok");
    let pok_sc = vec![pok[pok.len() - scalar_valid.len()..].to_vec()];
    let r2_sc = vec![r2p.signing_share().serialize()];
    // fixed-size non-scalar fields
    let comm_fx = vec![comms[&id1].hiding().serialize().expect("nc"), comms[&id1].binding().serialize().expect("nc")];
    let kp_fx = vec![elem_valid.clone(), pkp.verifying_key().serialize().expect("vk")];
    let pkp_fx = vec![pkp.verifying_key().serialize().expect("vk")];
    let cc_fx: Vec<Vec<u8>> = ss1.commitment().serialize().expect("cc");
    let r1_fx = {
        let mut v: Vec<Vec<u8>> = r1p.commitment().serialize().expect("cc");
        v.push(pok.clone());
        v
    };
    container(&mut out, "SigningCommitments", &comms[&id1], &|v| v.serialize().ok(), &|b| SigningCommitments::<C>::deserialize(b).ok(), true, id, &no, bs, &comm_fx);
    container(&mut out, "SigningNonces", &nonces[&id1], &|v| v.serialize().ok(), &|b| SigningNonces::<C>::deserialize(b).ok(), true, id, &non_sc, bs, &comm_fx);
    container(&mut out, "SigningPackage", &pkg, &|v| v.serialize().ok(), &|b| SigningPackage::<C>::deserialize(b).ok(), true, id, &no, bs, &comm_fx);
    container(&mut out, "SecretShare", &ss1, &|v| v.serialize().ok(), &|b| SecretShare::<C>::deserialize(b).ok(), true, id, &share_sc, bs, &cc_fx);
    container(&mut out, "KeyPackage", &kp1, &|v| v.serialize().ok(), &|b| KeyPackage::<C>::deserialize(b).ok(), true, id, &share_sc, bs, &kp_fx);
    container(&mut out, "PublicKeyPackage", &pkp, &|v| v.serialize().ok(), &|b| PublicKeyPackage::<C>::deserialize(b).ok(), true, id, &no, bs, &pkp_fx);
    let legacy = PublicKeyPackage::<C>::new(pkp.verifying_shares().clone(), *pkp.verifying_key(), None);
    container(&mut out, "PublicKeyPackageLegacy", &legacy, &|v| v.serialize().ok(), &|b| PublicKeyPackage::<C>::deserialize(b).ok(), true, id, &no, bs, &pkp_fx);
    container(&mut out, "dkg::round1::Package", &r1p, &|v| v.serialize().ok(), &|b| dkg::round1::Package::<C>::deserialize(b).ok(), true, id, &pok_sc, bs, &r1_fx);
    container(&mut out, "dkg::round1::SecretPackage", &r1s, &|v| v.serialize().ok(), &|b| dkg::round1::SecretPackage::<C>::deserialize(b).ok(), false, id, &no, bs, &no);
    container(&mut out, "dkg::round2::Package", &r2p, &|v| v.serialize().ok(), &|b| dkg::round2::Package::<C>::deserialize(b).ok(), true, id, &r2_sc, bs, &no);
    container(&mut out, "dkg::round2::SecretPackage", &r2s, &|v| v.serialize().ok(), &|b| dkg::round2::SecretPackage::<C>::deserialize(b).ok(), false, id, &no, bs, &no);
    // serde form of a bare signature share and of a signature
    {
        let z = zs[&id1];
        let js = serde_json::to_string(&z).ok();
        let ok = js.as_ref().and_then(|s| serde_json::from_str::<SignatureShare<C>>(s).ok()).map(|x| x == z);
        out.ev(json!({"op": "dec", "ty": "SignatureShare", "class": "container", "form": "json", "tag": "valid",
                      "accepted": ok.is_some(), "same": ok.unwrap_or(false)}));
        // a signature's value is its wire form: the Taproot suite encodes R x-only, so the
        // in-memory sign of R is not part of the value (BIP-340); compare re-encodings
        let js = serde_json::to_string(&sig).ok();
        let ok = js
            .as_ref()
            .and_then(|s| serde_json::from_str::<Signature<C>>(s).ok())
            .map(|x| x.serialize().ok() == sig.serialize().ok());
        out.ev(json!({"op": "dec", "ty": "Signature", "class": "container", "form": "json", "tag": "valid",
                      "accepted": ok.is_some(), "same": ok.unwrap_or(false)}));
        if let Some(s) = &js {
            // "<hex>" one, two and half of the bytes shorter, and empty
            let inner = s.trim_matches('"');
            for cut in [2usize, 4, inner.len() / 2 / 2 * 2, inner.len()] {
                if cut == 0 || cut > inner.len() {
                    continue;
                }
                let t = format!("\"{}\"", &inner[..inner.len() - cut]);
                out.ev(json!({"op": "dec", "ty": "Signature", "class": "container", "form": "json", "tag": "short_field",
                              "accepted": serde_json::from_str::<Signature<C>>(&t).is_ok()}));
            }
        }
    }

    // ---- toy: the whole 2^16 input space of scalars and elements
    if C::IS_TOY {
        let mut acc_s = vec![];
        let mut acc_i = vec![];
        let mut acc_k = vec![];
        let mut acc_e = vec![];
        for v in 0..=65535u16 {
            let b = v.to_be_bytes();
            if let Some(Some(re)) = d_share(&b) {
                acc_s.push(json!([b[0], b[1], re]));
            }
            if let Some(Some(re)) = d_id(&b) {
                acc_i.push(json!([b[0], b[1], re]));
            }
            if let Some(Some(re)) = d_sk(&b) {
                acc_k.push(json!([b[0], b[1], re]));
            }
            if let Some(re) = d_vk(&b) {
                acc_e.push(json!([b[0], b[1], re]));
            }
        }
        let p = toy::params();
        out.ev(json!({"op": "accset", "ty": "SigningShare", "class": "scalar", "tried": 65536, "acc": acc_s, "q": p.q, "p": p.p, "g": p.g}));
        out.ev(json!({"op": "accset", "ty": "Identifier", "class": "id", "tried": 65536, "acc": acc_i, "q": p.q, "p": p.p, "g": p.g}));
        out.ev(json!({"op": "accset", "ty": "SigningKey", "class": "sk", "tried": 65536, "acc": acc_k, "q": p.q, "p": p.p, "g": p.g}));
        out.ev(json!({"op": "accset", "ty": "VerifyingKey", "class": "elem", "tried": 65536, "acc": acc_e, "q": p.q, "p": p.p, "g": p.g}));
    }
    (out.n, out.accepted)
}
