//! Interpreter of the scenario script language: one step = one public library
//! call (or one adversary / network step that builds the arguments of a later
//! call).  Every step runs under `catch_unwind`; a panic is data.

use std::collections::{BTreeMap, BTreeSet, HashMap};
use std::panic::{catch_unwind, AssertUnwindSafe};

use frost_core as frost;
use frost_core::keys::dkg;
use frost_core::keys::{
    CoefficientCommitment, IdentifierList, KeyPackage, PublicKeyPackage, SecretShare, SigningShare,
    VerifiableSecretSharingCommitment, VerifyingShare,
};
use frost_core::round1::{NonceCommitment, SigningCommitments, SigningNonces};
use frost_core::round2::SignatureShare;
use frost_core::{
    CheaterDetection, Element, Error, Field, Group, Identifier, Scalar, Signature, SigningKey, SigningPackage,
    VerifyingKey,
};
use frost_rerandomized::RandomizedParams;
use serde_json::{json, Map, Value};

use crate::rng::{ScriptRng, SeedRng};
use crate::suite::{hex, scalar_from_u64, Suite};
use crate::toy;

pub(crate) type F<C> = <<C as frost::Ciphersuite>::Group as Group>::Field;
pub(crate) type G<C> = <C as frost::Ciphersuite>::Group;

#[derive(Clone)]
pub enum Obj<C: Suite> {
    Ss(SecretShare<C>),
    Kp(KeyPackage<C>),
    Pkp(PublicKeyPackage<C>),
    Non(SigningNonces<C>),
    Comm(SigningCommitments<C>),
    Pkg(SigningPackage<C>),
    Zs(SignatureShare<C>),
    Sig(Signature<C>),
    Sk(SigningKey<C>),
    R1s(dkg::round1::SecretPackage<C>),
    R1p(dkg::round1::Package<C>),
    R2s(dkg::round2::SecretPackage<C>),
    R2p(dkg::round2::Package<C>),
    Sc(Scalar<C>),
    Rp(RandomizedParams<C>),
    Bytes(Vec<u8>),
}

impl<C: Suite> Obj<C> {
    pub fn ty_name(&self) -> &'static str {
        match self {
            Obj::Ss(_) => "ss",
            Obj::Kp(_) => "kp",
            Obj::Pkp(_) => "pkp",
            Obj::Non(_) => "non",
            Obj::Comm(_) => "comm",
            Obj::Pkg(_) => "pkg",
            Obj::Zs(_) => "zs",
            Obj::Sig(_) => "sig",
            Obj::Sk(_) => "sk",
            Obj::R1s(_) => "r1s",
            Obj::R1p(_) => "r1p",
            Obj::R2s(_) => "r2s",
            Obj::R2p(_) => "r2p",
            Obj::Sc(_) => "sc",
            Obj::Rp(_) => "rp",
            Obj::Bytes(_) => "bytes",
        }
    }
}

/// A harness-level failure (malformed script, missing handle): never a verdict.
#[derive(Debug)]
pub struct ScriptError(pub String);
pub(crate) type SR<T> = Result<T, ScriptError>;
pub(crate) fn se<T>(m: impl Into<String>) -> SR<T> {
    Err(ScriptError(m.into()))
}

pub struct Interp<C: Suite> {
    pub env: HashMap<String, Obj<C>>,
    /// serialized identifier -> script label
    pub id_labels: HashMap<Vec<u8>, Value>,
    /// script label -> how to build the identifier (absent: label n is scalar n)
    pub id_specs: HashMap<String, Value>,
    pub rng: SeedRng,
    pub log_served: bool,
    /// how a bare label n becomes an identifier: "plain" (scalar n), "u16mul" (u16 n*4369),
    /// "derive" (hash-derived), "big" (n * 2^64 + 7, above the u16 range)
    pub id_mode: String,
}

pub fn hkey(v: &Value) -> SR<String> {
    match v {
        Value::String(s) => Ok(s.clone()),
        Value::Array(a) if a.len() == 2 => Ok(format!("{}#{}", a[0].as_str().unwrap_or("?"), a[1])),
        _ => se(format!("bad handle {v}")),
    }
}
pub(crate) fn hkey2(name: &Value, idx: &Value) -> SR<String> {
    match name {
        Value::String(s) => Ok(format!("{}#{}", s, idx)),
        _ => se(format!("bad handle name {name}")),
    }
}

pub fn bytes_of(v: &Value) -> SR<Vec<u8>> {
    match v {
        Value::Array(a) => a
            .iter()
            .map(|x| x.as_u64().filter(|b| *b < 256).map(|b| b as u8).ok_or(ScriptError(format!("bad byte {x}"))))
            .collect(),
        Value::String(s) => crate::suite::unhex(s).ok_or(ScriptError("bad hex".into())),
        _ => se(format!("bad bytes {v}")),
    }
}
pub fn bytes_json(b: &[u8]) -> Value {
    Value::Array(b.iter().map(|x| json!(*x)).collect())
}

fn err_name<C: Suite>(e: &Error<C>) -> String {
    let s = format!("{:?}", e);
    let cut = s.find(|c: char| c == ' ' || c == '{' || c == '(').unwrap_or(s.len());
    let head = s[..cut].to_string();
    match e {
        Error::FieldError(_) => "FieldError".into(),
        Error::GroupError(_) => "GroupError".into(),
        _ => head,
    }
}

impl<C: Suite> Interp<C> {
    pub fn new(seed: u64) -> Self {
        let mut rng = SeedRng::new(seed);
        rng.record_bytes = true;
        Interp { env: HashMap::new(), id_labels: HashMap::new(), id_specs: HashMap::new(), rng, log_served: false, id_mode: "plain".into() }
    }

    // ------------------------------------------------------------ identifiers
    pub fn ident(&mut self, label: &Value) -> SR<Identifier<C>> {
        let key = label.to_string();
        let spec = self.id_specs.get(&key).cloned();
        let id = match spec {
            None => {
                let n = label.as_u64();
                match (self.id_mode.as_str(), n) {
                    ("u16mul", Some(n)) if !C::IS_TOY && n * 4369 <= 65535 => {
                        Identifier::<C>::try_from((n * 4369) as u16).map_err(|_| ScriptError("bad u16 id".into()))?
                    }
                    // labels beyond 15 continue above the u16 range, so that the order of the identifiers stays
                    // the order of their labels
                    ("u16mul", Some(n)) if !C::IS_TOY => {
                        Identifier::<C>::new(scalar_from_u64::<C>(65535 + n)).map_err(|_| ScriptError("zero id".into()))?
                    }
                    ("derive", Some(n)) if !C::IS_TOY => Identifier::<C>::derive(format!("participant-{n}").as_bytes())
                        .map_err(|_| ScriptError("derive failed".into()))?,
                    ("big", Some(n)) if !C::IS_TOY => {
                        let mut s = scalar_from_u64::<C>(n);
                        for _ in 0..64 {
                            s = s + s;
                        }
                        s = s + scalar_from_u64::<C>(7);
                        Identifier::<C>::new(s).map_err(|_| ScriptError("zero id".into()))?
                    }
                    // "hi": identifiers that share their low bytes and differ in the most significant byte of the
                    // encoding only: (n mod 2 + 1) + n * 2^(8*(L-1)), L = number of significant bytes
                    ("hi", Some(n)) if !C::IS_TOY => {
                        let len = <<C::Group as Group>::Field as Field>::serialize(&<<C::Group as Group>::Field as Field>::zero()).as_ref().len();
                        let sig = if C::NAME.contains("ed448") { 56 } else { len };
                        // (labels beyond 15 would leave the range of the top byte: they continue above 15 * 2^(8(L-1)),
                        // which keeps the order of the identifiers the order of their labels)
                        let mut s = scalar_from_u64::<C>(n.min(15));
                        for _ in 0..8 * (sig - 1) {
                            s = s + s;
                        }
                        s = s + scalar_from_u64::<C>(if n <= 15 { n % 2 + 1 } else { n });
                        Identifier::<C>::new(s).map_err(|_| ScriptError("zero id".into()))?
                    }
                    _ => {
                        let s = C::scalar_lit(label).ok_or(ScriptError(format!("bad id literal {label}")))?;
                        Identifier::<C>::new(s).map_err(|_| ScriptError(format!("zero identifier {label}")))?
                    }
                }
            }
            Some(spec) => {
                if let Some(n) = spec.get("u16").and_then(|x| x.as_u64()) {
                    Identifier::<C>::try_from(n as u16).map_err(|_| ScriptError("bad u16 id".into()))?
                } else if let Some(s) = spec.get("derive").and_then(|x| x.as_str()) {
                    Identifier::<C>::derive(s.as_bytes()).map_err(|_| ScriptError("derive failed".into()))?
                } else if let Some(h) = spec.get("hex") {
                    let s = C::scalar_lit(h).ok_or(ScriptError("bad id hex".into()))?;
                    Identifier::<C>::new(s).map_err(|_| ScriptError("zero id".into()))?
                } else {
                    return se(format!("bad id spec {spec}"));
                }
            }
        };
        self.id_labels.entry(id.serialize()).or_insert_with(|| label.clone());
        Ok(id)
    }
    pub fn idj(&self, id: &Identifier<C>) -> Value {
        if C::IS_TOY {
            return C::sj(&id.to_scalar());
        }
        match self.id_labels.get(&id.serialize()) {
            Some(l) => l.clone(),
            None => Value::String(hex(&id.serialize())),
        }
    }

    // ------------------------------------------------------------ env access
    pub(crate) fn get(&self, h: &Value) -> SR<&Obj<C>> {
        let k = hkey(h)?;
        self.env.get(&k).ok_or(ScriptError(format!("missing handle {k}")))
    }
    pub(crate) fn put(&mut self, h: &Value, o: Obj<C>) -> SR<()> {
        self.env.insert(hkey(h)?, o);
        Ok(())
    }
    pub(crate) fn kp(&self, h: &Value) -> SR<KeyPackage<C>> {
        match self.get(h)? {
            Obj::Kp(x) => Ok(x.clone()),
            o => se(format!("{h} is {} not kp", o.ty_name())),
        }
    }
    pub(crate) fn pkp(&self, h: &Value) -> SR<PublicKeyPackage<C>> {
        match self.get(h)? {
            Obj::Pkp(x) => Ok(x.clone()),
            o => se(format!("{h} is {} not pkp", o.ty_name())),
        }
    }
    pub(crate) fn ss(&self, h: &Value) -> SR<SecretShare<C>> {
        match self.get(h)? {
            Obj::Ss(x) => Ok(x.clone()),
            o => se(format!("{h} is {} not ss", o.ty_name())),
        }
    }
    pub(crate) fn non(&self, h: &Value) -> SR<SigningNonces<C>> {
        match self.get(h)? {
            Obj::Non(x) => Ok(x.clone()),
            o => se(format!("{h} is {} not non", o.ty_name())),
        }
    }
    pub(crate) fn comm(&self, h: &Value) -> SR<SigningCommitments<C>> {
        match self.get(h)? {
            Obj::Comm(x) => Ok(*x),
            Obj::Non(x) => Ok(*x.commitments()),
            o => se(format!("{h} is {} not comm", o.ty_name())),
        }
    }
    pub(crate) fn pkg(&self, h: &Value) -> SR<SigningPackage<C>> {
        match self.get(h)? {
            Obj::Pkg(x) => Ok(x.clone()),
            o => se(format!("{h} is {} not pkg", o.ty_name())),
        }
    }
    pub(crate) fn zs(&self, h: &Value) -> SR<SignatureShare<C>> {
        match self.get(h)? {
            Obj::Zs(x) => Ok(*x),
            o => se(format!("{h} is {} not zs", o.ty_name())),
        }
    }
    pub(crate) fn sig(&self, h: &Value) -> SR<Signature<C>> {
        match self.get(h)? {
            Obj::Sig(x) => Ok(*x),
            o => se(format!("{h} is {} not sig", o.ty_name())),
        }
    }
    pub(crate) fn vk_of(&self, h: &Value) -> SR<VerifyingKey<C>> {
        match self.get(h)? {
            Obj::Pkp(x) => Ok(*x.verifying_key()),
            Obj::Kp(x) => Ok(*x.verifying_key()),
            Obj::Rp(x) => Ok(*x.randomized_verifying_key()),
            Obj::Sk(x) => Ok(VerifyingKey::from(x)),
            o => se(format!("{h} is {} : no verifying key", o.ty_name())),
        }
    }

    // ------------------------------------------------------------ projections
    pub(crate) fn sj(s: &Scalar<C>) -> Value {
        C::sj(s)
    }
    pub(crate) fn ej(e: &Element<C>) -> Value {
        C::ej(e)
    }
    pub(crate) fn commit_j(c: &VerifiableSecretSharingCommitment<C>) -> Value {
        Value::Array(c.coefficients().iter().map(|x| Self::ej(&x.value())).collect())
    }
    pub fn kp_j(&self, kp: &KeyPackage<C>) -> Value {
        json!({"id": self.idj(kp.identifier()), "share": Self::sj(&kp.signing_share().to_scalar()),
               "vs": Self::ej(&kp.verifying_share().to_element()),
               "vk": Self::ej(&kp.verifying_key().to_element()), "min": *kp.min_signers()})
    }
    pub fn pkp_j(&self, p: &PublicKeyPackage<C>) -> Value {
        let vs: Vec<Value> =
            p.verifying_shares().iter().map(|(i, v)| json!([self.idj(i), Self::ej(&v.to_element())])).collect();
        json!({"vs": vs, "vk": Self::ej(&p.verifying_key().to_element()),
               "min": p.min_signers().map(|m| m as i64).unwrap_or(-1)})
    }
    pub(crate) fn err_j(&self, e: &Error<C>) -> Value {
        let c: Vec<Value> = e.culprits().iter().map(|i| self.idj(i)).collect();
        // identifiers as big-endian byte strings: lets the trace specification check the order
        let be: Vec<Value> = e
            .culprits()
            .iter()
            .map(|i| {
                let mut b = i.serialize();
                if C::LE {
                    b.reverse();
                }
                bytes_json(&b)
            })
            .collect();
        json!({"ok": false, "err": err_name(e), "culprits": c, "culprits_be": be})
    }
    pub(crate) fn zs_scalar(z: &SignatureShare<C>) -> Scalar<C> {
        let b = z.serialize();
        let ser: <F<C> as Field>::Serialization = b.as_slice().try_into().ok().expect("share bytes");
        F::<C>::deserialize(&ser).expect("share scalar")
    }
    pub(crate) fn zs_from_scalar(s: &Scalar<C>) -> SignatureShare<C> {
        SignatureShare::<C>::deserialize(F::<C>::serialize(s).as_ref()).expect("share from scalar")
    }
    pub(crate) fn gmul(s: &Scalar<C>) -> Element<C> {
        G::<C>::generator() * *s
    }
    pub(crate) fn lit(v: Option<&Value>) -> SR<Scalar<C>> {
        let v = v.ok_or(ScriptError("missing scalar literal".into()))?;
        C::scalar_lit(v).ok_or(ScriptError(format!("bad scalar literal {v}")))
    }

    // ------------------------------------------------------------ one step
    /// Executes a step; returns its result projection.  `Err` = script error.
    pub fn step(&mut self, st: &Value) -> SR<Value> {
        let op = st.get("op").and_then(|x| x.as_str()).ok_or(ScriptError("step without op".into()))?.to_string();
        // random source for this step
        let scripted: Option<Vec<Vec<u8>>> = match (st.get("rng"), st.get("rng32")) {
            (Some(Value::Array(a)), _) => Some(a.iter().map(bytes_of).collect::<SR<Vec<_>>>()?),
            // shorthand: 32-byte draws, 31 zero bytes followed by the given byte
            (_, Some(Value::Array(a))) => Some(
                a.iter()
                    .map(|b| {
                        let mut v = vec![0u8; 32];
                        v[31] = b.as_u64().unwrap_or(0) as u8;
                        v
                    })
                    .collect(),
            ),
            _ => None,
        };
        let mut srng = ScriptRng::new(scripted.clone().unwrap_or_default());
        let use_script = scripted.is_some();
        let mut seed_rng = std::mem::replace(&mut self.rng, SeedRng::new(0));
        let before = seed_rng.requests.len();
        let r = catch_unwind(AssertUnwindSafe(|| {
            if use_script {
                self.exec(&op, st, &mut srng)
            } else {
                self.exec(&op, st, &mut seed_rng)
            }
        }));
        let reqs: Vec<usize> = if use_script { srng.requests.clone() } else { seed_rng.requests[before..].to_vec() };
        let served: Vec<Vec<u8>> = if use_script { srng.served.clone() } else { std::mem::take(&mut seed_rng.served) };
        self.rng = seed_rng;
        let mut res = match r {
            Ok(Ok(v)) => v,
            Ok(Err(e)) => return Err(e),
            Err(p) => {
                let msg = p
                    .downcast_ref::<String>()
                    .cloned()
                    .or_else(|| p.downcast_ref::<&str>().map(|s| s.to_string()))
                    .unwrap_or_else(|| "panic".into());
                json!({"panic": msg})
            }
        };
        if let Value::Object(m) = &mut res {
            m.insert("rng_req".into(), json!(reqs));
            if self.log_served {
                // canonical chunking: a request of k*32 bytes is logged as k draws of 32, so that the
                // trace specifications do not depend on how the library batches its requests
                let canon: Vec<&[u8]> = served
                    .iter()
                    .flat_map(|b| if b.len() > 32 && b.len() % 32 == 0 { b.chunks(32).collect::<Vec<_>>() } else { vec![b.as_slice()] })
                    .collect();
                m.insert("rng_served".into(), Value::Array(canon.iter().map(|b| bytes_json(b)).collect()));
            }
            if use_script {
                m.insert("rng_unused".into(), json!(srng.unused()));
                m.insert("rng_overrun".into(), json!(srng.overrun));
                m.insert("rng_mismatch".into(), json!(srng.mismatch));
            }
        }
        Ok(res)
    }

    pub(crate) fn ids_list(&mut self, v: Option<&Value>) -> SR<Vec<Identifier<C>>> {
        let a = v.and_then(|x| x.as_array()).ok_or(ScriptError("missing id list".into()))?.clone();
        a.iter().map(|x| self.ident(x)).collect()
    }
    pub(crate) fn slots<T>(&mut self, v: Option<&Value>, f: impl Fn(&Self, &Value) -> SR<T>) -> SR<BTreeMap<Identifier<C>, T>> {
        let a = v.and_then(|x| x.as_array()).ok_or(ScriptError("missing slots".into()))?.clone();
        let mut m = BTreeMap::new();
        for p in a {
            let id = self.ident(&p[0])?;
            m.insert(id, f(self, &p[1])?);
        }
        Ok(m)
    }
    pub(crate) fn mode(st: &Value) -> SR<CheaterDetection> {
        match st.get("mode").and_then(|x| x.as_str()) {
            Some("Disabled") => Ok(CheaterDetection::Disabled),
            Some("FirstCheater") | None => Ok(CheaterDetection::FirstCheater),
            Some("AllCheaters") => Ok(CheaterDetection::AllCheaters),
            Some(m) => se(format!("bad mode {m}")),
        }
    }

    fn exec<R: rand_core::CryptoRng>(&mut self, op: &str, st: &Value, rng: &mut R) -> SR<Value> {
        match op {
            // -------------------------------------------------------- keys
            "split" => {
                let n = st["n"].as_u64().unwrap_or(0) as u16;
                let t = st["t"].as_u64().unwrap_or(0) as u16;
                let custom = st.get("custom").and_then(|x| x.as_bool()).unwrap_or(false);
                let ids = if custom { self.ids_list(st.get("ids"))? } else { vec![] };
                if !custom && !C::IS_TOY {
                    // the library will assign the default identifiers 1..n: make their labels known
                    // (such scenarios run with plain identifiers, see cmd_run)
                    let nn = st["n"].as_u64().unwrap_or(0).min(4096);
                    for k in 1..=nn {
                        let _ = self.ident(&json!(k));
                    }
                }
                let idl = if custom { IdentifierList::Custom(&ids) } else { IdentifierList::Default };
                let r = match st.get("key") {
                    Some(k) if !k.is_null() => {
                        let s = Self::lit(Some(k))?;
                        let key = SigningKey::<C>::from_scalar(s).map_err(|_| ScriptError("zero key".into()))?;
                        frost::keys::split(&key, n, t, idl, rng)
                    }
                    _ => frost::keys::generate_with_dealer(n, t, idl, rng),
                };
                match r {
                    Ok((shares, pkp)) => {
                        let first = shares.values().next().map(|s| s.commitment().clone());
                        let same = shares.values().all(|s| Some(s.commitment()) == first.as_ref());
                        let sh: Vec<Value> = shares
                            .iter()
                            .map(|(i, s)| json!([self.idj(i), Self::sj(&s.signing_share().to_scalar())]))
                            .collect();
                        let keyed: Vec<bool> = shares.iter().map(|(i, s)| i == s.identifier()).collect();
                        let mut res = self.pkp_j(&pkp);
                        res["ok"] = json!(true);
                        res["shares"] = json!(sh);
                        res["commit"] = first.as_ref().map(Self::commit_j).unwrap_or(json!([]));
                        res["commit_same"] = json!(same);
                        res["keyed_by_own_id"] = json!(keyed.iter().all(|b| *b));
                        for (i, s) in shares {
                            let l = self.idj(&i);
                            self.env.insert(hkey2(&st["out_ss"], &l)?, Obj::Ss(s));
                        }
                        self.put(&st["out_pkp"], Obj::Pkp(pkp))?;
                        Ok(res)
                    }
                    Err(e) => Ok(self.err_j(&e)),
                }
            }
            "kp_from_ss" => {
                let ss = self.ss(&st["ss"])?;
                match KeyPackage::<C>::try_from(ss) {
                    Ok(kp) => {
                        let mut res = self.kp_j(&kp);
                        res["ok"] = json!(true);
                        self.put(&st["out"], Obj::Kp(kp))?;
                        Ok(res)
                    }
                    Err(e) => Ok(self.err_j(&e)),
                }
            }
            "tamper_ss" => {
                let ss = self.ss(&st["src"])?;
                let what = st["what"].as_str().unwrap_or("");
                let mut id = *ss.identifier();
                let mut share = ss.signing_share().to_scalar();
                let mut comm: Vec<CoefficientCommitment<C>> = ss.commitment().coefficients().to_vec();
                match what {
                    "share" => share = share + Self::lit(st.get("d"))?,
                    "zero" => share = F::<C>::zero(),
                    "id" => id = self.ident(&st["d"])?,
                    "commit" => {
                        let k = st["k"].as_u64().unwrap_or(1) as usize - 1;
                        let d = Self::lit(st.get("d"))?;
                        if k >= comm.len() {
                            return se("tamper_ss: k out of range");
                        }
                        comm[k] = CoefficientCommitment::new(comm[k].value() + Self::gmul(&d));
                    }
                    "trunc" => {
                        comm.pop();
                    }
                    "extend" => {
                        let d = Self::lit(st.get("d"))?;
                        comm.push(CoefficientCommitment::new(Self::gmul(&d)));
                    }
                    _ => return se(format!("tamper_ss: bad what {what}")),
                }
                let n = SecretShare::new(id, SigningShare::new(share), VerifiableSecretSharingCommitment::new(comm));
                self.put(&st["out"], Obj::Ss(n))?;
                Ok(json!({"ok": true}))
            }
            "lie_min" => {
                let m = st["min"].as_i64().unwrap_or(0);
                let o = match self.get(&st["src"])?.clone() {
                    Obj::Kp(k) => Obj::Kp(KeyPackage::new(
                        *k.identifier(),
                        *k.signing_share(),
                        *k.verifying_share(),
                        *k.verifying_key(),
                        m as u16,
                    )),
                    Obj::Pkp(p) => Obj::Pkp(PublicKeyPackage::new(
                        p.verifying_shares().clone(),
                        *p.verifying_key(),
                        if m < 0 { None } else { Some(m as u16) },
                    )),
                    o => return se(format!("lie_min on {}", o.ty_name())),
                };
                self.put(&st["out"], o)?;
                Ok(json!({"ok": true}))
            }
            "reconstruct" => {
                let hs = st["kps"].as_array().cloned().unwrap_or_default();
                let kps: Vec<KeyPackage<C>> = hs.iter().map(|h| self.kp(h)).collect::<SR<_>>()?;
                match frost::keys::reconstruct(&kps) {
                    Ok(sk) => {
                        let res = json!({"ok": true, "key": Self::sj(&sk.clone().to_scalar())});
                        if let Some(o) = st.get("out") {
                            self.put(o, Obj::Sk(sk))?;
                        }
                        Ok(res)
                    }
                    Err(e) => Ok(self.err_j(&e)),
                }
            }
            "pkp_from_commitment" => {
                let ids: BTreeSet<Identifier<C>> = self.ids_list(st.get("ids"))?.into_iter().collect();
                let ss = self.ss(&st["ss"])?;
                match PublicKeyPackage::from_commitment(&ids, ss.commitment()) {
                    Ok(p) => {
                        let mut res = self.pkp_j(&p);
                        res["ok"] = json!(true);
                        self.put(&st["out"], Obj::Pkp(p))?;
                        Ok(res)
                    }
                    Err(e) => Ok(self.err_j(&e)),
                }
            }
            // -------------------------------------------------------- round 1
            "commit" => {
                let kp = self.kp(&st["kp"])?;
                let (non, comm) = frost::round1::commit(kp.signing_share(), rng);
                let res = json!({"ok": true, "hiding": Self::sj(&non.hiding().to_scalar()),
                    "binding": Self::sj(&non.binding().to_scalar()),
                    "D": Self::ej(&comm.hiding().value()), "E": Self::ej(&comm.binding().value()),
                    "inner_comm_eq": non.commitments() == &comm});
                self.put(&st["out_non"], Obj::Non(non))?;
                self.put(&st["out_comm"], Obj::Comm(comm))?;
                Ok(res)
            }
            "preprocess" => {
                let kp = self.kp(&st["kp"])?;
                let k = st["k"].as_u64().unwrap_or(1) as u8;
                let (nons, comms) = frost::round1::preprocess(k, kp.signing_share(), rng);
                let mut pairs = vec![];
                for (j, (non, comm)) in nons.into_iter().zip(comms.into_iter()).enumerate() {
                    pairs.push(json!({"hiding": Self::sj(&non.hiding().to_scalar()),
                        "binding": Self::sj(&non.binding().to_scalar()),
                        "D": Self::ej(&comm.hiding().value()), "E": Self::ej(&comm.binding().value())}));
                    self.env.insert(hkey2(&st["out_non"], &json!(j + 1))?, Obj::Non(non));
                    self.env.insert(hkey2(&st["out_comm"], &json!(j + 1))?, Obj::Comm(comm));
                }
                Ok(json!({"ok": true, "pairs": pairs}))
            }
            "tamper_comm" => {
                let c = self.comm(&st["src"])?;
                let what = st["what"].as_str().unwrap_or("");
                let (mut d_, mut e_) = (c.hiding().value(), c.binding().value());
                match what {
                    "D" => d_ = d_ + Self::gmul(&Self::lit(st.get("d"))?),
                    "E" => e_ = e_ + Self::gmul(&Self::lit(st.get("d"))?),
                    "swap" => std::mem::swap(&mut d_, &mut e_),
                    "identD" => d_ = G::<C>::identity(),
                    "identE" => e_ = G::<C>::identity(),
                    _ => return se(format!("tamper_comm: bad what {what}")),
                }
                let n = SigningCommitments::new(NonceCommitment::new(d_), NonceCommitment::new(e_));
                self.put(&st["out"], Obj::Comm(n))?;
                Ok(json!({"ok": true}))
            }
            "neg_nonces" => {
                // nonce scalars negated, stored commitments kept (through the self-describing form)
                let non = self.non(&st["src"])?;
                let zero = F::<C>::zero();
                let h = zero - non.hiding().to_scalar();
                let b = zero - non.binding().to_scalar();
                // (a zero nonce has an identity commitment, which has no encoding: a coincidence of a small field)
                let mut v = match serde_json::to_value(&non) {
                    Ok(v) => v,
                    Err(_) => return Ok(json!({"ok": false, "stage": "ser"})),
                };
                v["hiding"] = json!(hex(F::<C>::serialize(&h).as_ref()));
                v["binding"] = json!(hex(F::<C>::serialize(&b).as_ref()));
                let n: SigningNonces<C> = match serde_json::from_value(v) {
                    Ok(n) => n,
                    Err(_) => return Ok(json!({"ok": false, "stage": "de"})),
                };
                self.put(&st["out"], Obj::Non(n))?;
                Ok(json!({"ok": true}))
            }
            "package" => {
                let msg = bytes_of(&st["msg"])?;
                let m = self.slots(st.get("slots"), |s, h| s.comm(h))?;
                let mut res = json!({"ok": true});
                if C::IS_SPY {
                    // encodings of the slots in the library's map order, for byte-structure checks
                    let enc: Vec<Value> = m
                        .iter()
                        .map(|(i, c)| {
                            let ie = i.serialize();
                            let mut be = ie.clone();
                            if C::LE {
                                be.reverse();
                            }
                            json!([bytes_json(&ie), bytes_json(&be), Self::ej(&c.hiding().value()), Self::ej(&c.binding().value())])
                        })
                        .collect();
                    res["enc"] = json!(enc);
                }
                self.put(&st["out"], Obj::Pkg(SigningPackage::new(m, &msg)))?;
                Ok(res)
            }
            // -------------------------------------------------------- round 2
            "sign" => {
                let (pkg, non, kp) = (self.pkg(&st["pkg"])?, self.non(&st["non"])?, self.kp(&st["kp"])?);
                match frost::round2::sign(&pkg, &non, &kp) {
                    Ok(z) => {
                        let res = json!({"ok": true, "z": Self::sj(&Self::zs_scalar(&z))});
                        self.put(&st["out"], Obj::Zs(z))?;
                        Ok(res)
                    }
                    Err(e) => Ok(self.err_j(&e)),
                }
            }
            "tamper_share" => {
                let z = Self::zs_scalar(&self.zs(&st["src"])?);
                let zero = F::<C>::zero();
                let n = match st["how"].as_str().unwrap_or("") {
                    "add" => z + Self::lit(st.get("d"))?,
                    "neg" => zero - z,
                    "zero" => zero,
                    h => return se(format!("tamper_share: bad how {h}")),
                };
                self.put(&st["out"], Obj::Zs(Self::zs_from_scalar(&n)))?;
                Ok(json!({"ok": true}))
            }
            "verify_share" => {
                let id = self.ident(&st["id"])?;
                let vsid = self.ident(&st["vsid"])?;
                let pkp = self.pkp(&st["pkp"])?;
                let vs = *pkp.verifying_shares().get(&vsid).ok_or(ScriptError("verify_share: vsid not in pkp".into()))?;
                let (z, pkg) = (self.zs(&st["share"])?, self.pkg(&st["pkg"])?);
                let vk = match st.get("vk") {
                    Some(h) if !h.is_null() => self.vk_of(h)?,
                    _ => *pkp.verifying_key(),
                };
                match frost::verify_signature_share(id, &vs, &z, &pkg, &vk) {
                    Ok(()) => Ok(json!({"ok": true})),
                    Err(e) => Ok(self.err_j(&e)),
                }
            }
            "aggregate" => {
                let pkg = self.pkg(&st["pkg"])?;
                let pkp = self.pkp(&st["pkp"])?;
                let shares = self.slots(st.get("shares"), |s, h| s.zs(h))?;
                let mut structural_same: Option<bool> = None;
                let r = match st.get("rp") {
                    Some(rp) if !rp.is_null() => {
                        let rp = match self.get(rp)? {
                            Obj::Rp(x) => x.clone(),
                            o => return se(format!("rp is {}", o.ty_name())),
                        };
                        let r = frost_rerandomized::aggregate_custom(&pkg, &shares, &pkp, Self::mode(st)?, &rp);
                        // what plain aggregation says about the same inputs, when it refuses them for their shape
                        let mode = Self::mode(st)?;
                        let plain = crate::toy::oracle_unlogged(|| crate::spy::unlogged(|| frost::aggregate_custom(&pkg, &shares, &pkp, mode)));
                        if let (Err(re), Err(pe)) = (&r, plain) {
                            let (rn, pn) = (self.err_j(re)["err"].clone(), self.err_j(&pe)["err"].clone());
                            if matches!(pn.as_str(), Some("IncorrectNumberOfShares") | Some("UnknownIdentifier")) {
                                structural_same = Some(rn == pn);
                            }
                        }
                        r
                    }
                    _ => frost::aggregate_custom(&pkg, &shares, &pkp, Self::mode(st)?),
                };
                match r {
                    Ok(sig) => {
                        let bytes = sig.serialize().ok();
                        let res = json!({"ok": true, "R": Self::ej(sig.R()), "z": Self::sj(sig.z()),
                            "bytes": bytes.as_ref().map(|b| bytes_json(b)).unwrap_or(Value::Null)});
                        self.put(&st["out"], Obj::Sig(sig))?;
                        Ok(res)
                    }
                    Err(e) => {
                        let mut v = self.err_j(&e);
                        if let Some(b) = structural_same {
                            v["structural_same"] = json!(b);
                        }
                        if v["err"].as_str() == Some("IncorrectNumberOfShares") {
                            v["refused_on_count"] = json!(true);
                        }
                        Ok(v)
                    }
                }
            }
            "verify" => {
                let vk = self.vk_of(&st["pkp"])?;
                let msg = bytes_of(&st["msg"])?;
                let sig = self.sig(&st["sig"])?;
                // also through the wire form when the signature is encodable
                let rt = sig.serialize().ok().and_then(|b| Signature::<C>::deserialize(&b).ok());
                let r = vk.verify(&msg, &sig);
                let rt_ok = rt.map(|s| vk.verify(&msg, &s).is_ok());
                let ext = match (vk.serialize(), sig.serialize()) {
                    (Ok(vb), Ok(sb)) => C::ext_verify(&vb, &msg, &sb),
                    _ => None,
                };
                match r {
                    Ok(()) => Ok(json!({"ok": true, "roundtrip_ok": rt_ok, "ext_ok": ext})),
                    Err(e) => {
                        let mut v = self.err_j(&e);
                        v["roundtrip_ok"] = json!(rt_ok);
                        v["ext_ok"] = json!(ext);
                        Ok(v)
                    }
                }
            }
            _ => self.exec2(op, st, rng),
        }
    }
}

/// Compare the keys present in `expect` with `res`; returns (key, expected, got).
pub fn diff(expect: &Value, res: &Value) -> Vec<(String, Value, Value)> {
    let mut out = vec![];
    if let (Some(e), Some(r)) = (expect.as_object(), res.as_object()) {
        for (k, ev) in e {
            let rv = r.get(k).cloned().unwrap_or(Value::Null);
            if &rv != ev {
                out.push((k.clone(), ev.clone(), rv));
            }
        }
    } else if expect != res {
        out.push(("".into(), expect.clone(), res.clone()));
    }
    out
}

pub fn toy_setup(script: &Value) -> SR<()> {
    let q = script["q"].as_u64().ok_or(ScriptError("toy script without q".into()))? as u32;
    let p = script["p"].as_u64().unwrap_or(0) as u32;
    let g = script["g"].as_u64().unwrap_or(0) as u32;
    let params = if p == 0 { toy::ToyParams::for_q(q) } else { toy::ToyParams::new(q, p, g) }.map_err(ScriptError)?;
    toy::set_params(params);
    toy::oracle_reset();
    if let Some(Value::Array(o)) = script.get("oracle") {
        for e in o {
            let tag = e[0].as_str().ok_or(ScriptError("oracle tag".into()))?;
            let pre = bytes_of(&e[1])?;
            let ans = e[2].as_u64().ok_or(ScriptError("oracle answer".into()))? as u32;
            toy::oracle_program(tag, pre, ans);
        }
    }
    Ok(())
}

#[allow(dead_code)]
pub fn map_of(v: &Value) -> Map<String, Value> {
    v.as_object().cloned().unwrap_or_default()
}
#[allow(dead_code)]
pub fn unused_scalar<C: Suite>() -> Scalar<C> {
    scalar_from_u64::<C>(0)
}
