//! C18: the Taproot suite, observed through its public API on the real curve,
//! with libsecp256k1 + sha2 as an independent BIP-340 / BIP-341 implementation.
//! One event per signing session; the eight parity combinations
//! (internal key, output key, group commitment) x four kinds of script-tree
//! root are searched for over seeds.  Laws: spec/trace/TraceTaproot.tla.

use std::collections::BTreeMap;
use std::io::Write;

use frost_secp256k1_tr as tr;
use frost_secp256k1_tr::keys::{EvenY, Tweak};
use serde_json::{json, Value};
use sha2::{Digest, Sha256};

use crate::rng::SeedRng;

type S = tr::Secp256K1Sha256TR;

fn tagged(tag: &str, parts: &[&[u8]]) -> [u8; 32] {
    let th = Sha256::digest(tag.as_bytes());
    let mut h = Sha256::new();
    h.update(th);
    h.update(th);
    for p in parts {
        h.update(p);
    }
    h.finalize().into()
}

/// BIP-341: Q = lift_x(P) + int(hashTapTweak(x(P) || root)) * G, computed by libsecp256k1
fn output_key(internal_vk33: &[u8], root: Option<&[u8]>) -> Option<(secp256k1::XOnlyPublicKey, bool)> {
    let secp = secp256k1::Secp256k1::verification_only();
    let x = secp256k1::XOnlyPublicKey::from_slice(&internal_vk33[1..33]).ok()?;
    let t = match root {
        None => tagged("TapTweak", &[&internal_vk33[1..33]]),
        Some(r) => tagged("TapTweak", &[&internal_vk33[1..33], r]),
    };
    let sc = secp256k1::Scalar::from_be_bytes(t).ok()?;
    let (q, parity) = x.add_tweak(&secp, &sc).ok()?;
    Some((q, parity == secp256k1::Parity::Even))
}

fn bip340(sig64: &[u8], msg: &[u8], key: &secp256k1::XOnlyPublicKey) -> bool {
    let secp = secp256k1::Secp256k1::verification_only();
    match secp256k1::schnorr::Signature::from_slice(sig64) {
        Ok(s) => secp.verify_schnorr(&s, msg, key).is_ok(),
        Err(_) => false,
    }
}

fn root_of(kind: &str, rng: &mut SeedRng) -> Option<Vec<u8>> {
    match kind {
        "absent" => None,
        "empty" => Some(vec![]),
        "h32" => Some(rng.bytes(32)),
        _ => Some(rng.bytes(100)),
    }
}

pub fn run(seed: u64, sessions: u64, f: &mut dyn Write) -> u64 {
    let mut rng = SeedRng::new(seed);
    let mut n = 0u64;
    let _ = writeln!(f, "{}", json!({"op": "reset", "suite": "secp256k1-tr", "seed": seed}));
    let kinds = ["absent", "empty", "h32", "h100"];
    let shapes = [(3u16, 2u16), (3, 3), (4, 3), (5, 4)];
    for s in 0..sessions {
        let (nn, tt) = shapes[(s % shapes.len() as u64) as usize];
        let use_dkg = s % 3 == 2;
        // ---- keys
        let (kps, pkp, internal33, dkg_sum33): (BTreeMap<tr::Identifier, tr::keys::KeyPackage>, tr::keys::PublicKeyPackage, Vec<u8>, Option<Vec<u8>>) = if !use_dkg {
            let (shares, pkp) = tr::keys::generate_with_dealer(nn, tt, tr::keys::IdentifierList::Default, &mut rng).expect("keygen");
            let kps = shares.into_iter().map(|(i, s)| (i, tr::keys::KeyPackage::try_from(s).expect("kp"))).collect();
            let v = pkp.verifying_key().serialize().expect("vk");
            (kps, pkp, v, None)
        } else {
            let ids: Vec<tr::Identifier> = (1..=nn).map(|i| tr::Identifier::try_from(i).unwrap()).collect();
            let mut r1s = BTreeMap::new();
            let mut r1p = BTreeMap::new();
            for i in &ids {
                let (s, p) = tr::keys::dkg::part1(*i, nn, tt, &mut rng).expect("part1");
                r1s.insert(*i, s);
                r1p.insert(*i, p);
            }
            // the sum of the constant-term commitments, by libsecp256k1
            let firsts: Vec<secp256k1::PublicKey> = r1p
                .values()
                .map(|p| secp256k1::PublicKey::from_slice(&p.commitment().serialize().expect("c")[0]).expect("pk"))
                .collect();
            let refs: Vec<&secp256k1::PublicKey> = firsts.iter().collect();
            let sum = secp256k1::PublicKey::combine_keys(&refs).expect("sum").serialize().to_vec();
            let mut r2s = BTreeMap::new();
            let mut r2p: BTreeMap<tr::Identifier, BTreeMap<tr::Identifier, tr::keys::dkg::round2::Package>> = BTreeMap::new();
            for i in &ids {
                let others: BTreeMap<_, _> = r1p.iter().filter(|(k, _)| *k != i).map(|(k, v)| (*k, v.clone())).collect();
                let (s2, ps) = tr::keys::dkg::part2(r1s[i].clone(), &others).expect("part2");
                r2s.insert(*i, s2);
                for (to, p) in ps {
                    r2p.entry(to).or_default().insert(*i, p);
                }
            }
            let mut kps = BTreeMap::new();
            let mut pk = None;
            for i in &ids {
                let others: BTreeMap<_, _> = r1p.iter().filter(|(k, _)| *k != i).map(|(k, v)| (*k, v.clone())).collect();
                let (kp, p) = tr::keys::dkg::part3(&r2s[i], &others, &r2p[i]).expect("part3");
                kps.insert(*i, kp);
                pk = Some(p);
            }
            let pkp = pk.unwrap();
            let v = pkp.verifying_key().serialize().expect("vk");
            (kps, pkp, v, Some(sum))
        };
        let kind = kinds[((s / 2) % 4) as usize];
        let root = root_of(kind, &mut rng);
        let root_ref = root.as_deref();
        // ---- signer set: the highest identifiers, sometimes one extra
        let extra = if s % 5 == 0 && (tt as usize) < kps.len() { 1 } else { 0 };
        let signers: Vec<tr::Identifier> = kps.keys().rev().take(tt as usize + extra).cloned().collect();
        let msg = rng.bytes((s % 70) as usize);
        let mut nonces = BTreeMap::new();
        let mut comms = BTreeMap::new();
        for i in &signers {
            let (nn_, c) = tr::round1::commit(kps[i].signing_share(), &mut rng);
            nonces.insert(*i, nn_);
            comms.insert(*i, c);
        }
        let pkg = tr::SigningPackage::new(comms, &msg);
        let mut shares = BTreeMap::new();
        for i in &signers {
            shares.insert(*i, tr::round2::sign_with_tweak(&pkg, &nonces[i], &kps[i], root_ref).expect("sign"));
        }
        let tweaked_pkp = pkp.clone().tweak(root_ref);
        let agg = tr::aggregate_with_tweak(&pkg, &shares, &pkp, root_ref);
        // parities: internal key, output key (as the library computed it), group commitment
        let p_internal = pkp.has_even_y();
        let p_tweaked = tweaked_pkp.has_even_y();
        let mut ev = json!({"op": "tr_session", "i": s, "n": nn, "t": tt, "signers": signers.len(), "dkg": use_dkg,
            "root": kind, "p_internal": p_internal, "p_tweaked": p_tweaked, "agg_ok": agg.is_ok()});
        // every share verifies under the tweaked package
        let mut all_ok = true;
        for i in &signers {
            let vs = tweaked_pkp.verifying_shares()[i];
            if frost_core::verify_signature_share(*i, &vs, &shares[i], &pkg, tweaked_pkp.verifying_key()).is_err() {
                all_ok = false;
            }
        }
        ev["shares_ok"] = json!(all_ok);
        let indep = output_key(&internal33, root_ref);
        if let (Ok(sig), Some((q, q_even))) = (&agg, &indep) {
            ev["p_commitment"] = json!(sig.has_even_y());
            let b = sig.serialize().expect("sig bytes");
            ev["sig_len"] = json!(b.len());
            ev["bip340_output_key"] = json!(bip340(&b, &msg, q));
            ev["indep_output_even"] = json!(*q_even);
            // the library's tweaked key is the BIP-341 output key
            let lib_q = tweaked_pkp.verifying_key().serialize().expect("tvk");
            ev["output_key_matches"] = json!(lib_q[1..33] == q.serialize()[..]);
            // under the untweaked (internal) key it must not verify when a tweak was requested
            let internal_x = secp256k1::XOnlyPublicKey::from_slice(&internal33[1..33]).expect("x");
            ev["bip340_internal_key"] = json!(bip340(&b, &msg, &internal_x));
            ev["lib_verify"] = json!(tweaked_pkp.verifying_key().verify(&msg, sig).is_ok());
            ev["lib_verify_untweaked"] = json!(pkp.verifying_key().verify(&msg, sig).is_ok());
        }
        if let Some(sum) = &dkg_sum33 {
            // key generation outputs the key-path-only tweak of the sum of the constant terms
            let q = output_key(sum, None);
            ev["dkg_key_is_keypath_tweak"] = json!(q.map(|(q, _)| q.serialize()[..] == internal33[1..33]));
        }
        // ---- fault matrix on one signer (middle if there is one), three modes
        let victim = signers[signers.len() / 2];
        let z = &shares[&victim];
        let zb = z.serialize();
        let mut faults = vec![];
        for kindf in ["add1", "sub1", "neg", "zero", "other"] {
            let bad = match kindf {
                "other" => {
                    let o = signers.iter().find(|x| **x != victim).unwrap();
                    shares[o]
                }
                _ => {
                    use frost_core::{Field, Group};
                    type F = <<S as frost_core::Ciphersuite>::Group as Group>::Field;
                    let ser: [u8; 32] = zb.as_slice().try_into().unwrap();
                    let v = F::deserialize(&ser).unwrap();
                    let w = match kindf {
                        "add1" => v + F::one(),
                        "sub1" => v - F::one(),
                        "neg" => F::zero() - v,
                        _ => F::zero(),
                    };
                    tr::round2::SignatureShare::deserialize(F::serialize(&w).as_ref()).unwrap()
                }
            };
            let mut sh = shares.clone();
            sh.insert(victim, bad);
            for (mode, mname) in [
                (frost_core::CheaterDetection::Disabled, "Disabled"),
                (frost_core::CheaterDetection::FirstCheater, "FirstCheater"),
                (frost_core::CheaterDetection::AllCheaters, "AllCheaters"),
            ] {
                let r = frost_core::aggregate_custom(&pkg, &sh, &tweaked_pkp, mode);
                let (ok, culprits) = match &r {
                    Ok(_) => (true, vec![]),
                    Err(e) => (false, e.culprits().iter().map(|c| c == &victim).collect::<Vec<bool>>()),
                };
                faults.push(json!({"kind": kindf, "mode": mname, "ok": ok, "n_culprits": culprits.len(),
                    "only_victim": culprits.iter().all(|b| *b)}));
            }
            // the same fault through the suite's own entry point, which tweaks the package itself
            let r = tr::aggregate_with_tweak(&pkg, &sh, &pkp, root_ref);
            let (ok, culprits) = match &r {
                Ok(_) => (true, vec![]),
                Err(e) => (false, e.culprits().iter().map(|c| c == &victim).collect::<Vec<bool>>()),
            };
            faults.push(json!({"kind": kindf, "mode": "aggregate_with_tweak", "ok": ok, "n_culprits": culprits.len(),
                "only_victim": culprits.iter().all(|b| *b)}));
        }
        ev["faults"] = json!(faults);
        let _ = writeln!(f, "{}", ev);
        n += 1;
    }
    n
}

#[allow(dead_code)]
fn _v(_: Value) {}
